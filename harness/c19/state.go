package main

// State-carry-over and aliasing monitors for C19.
//
// main.go already calls every decomposer from 16 goroutines and 50 times per word. What it does not
// do is keep anything between calls. Here:
//
//	receiver reuse - the decoders with a receiver (CustomKeyInformationFlags, KeyStrength, KeyUsage,
//	                 CustomKeyInformationVolumeType, KeyCredentialEntryType, KeyCredentialVersion .FromBytes) decode
//	                 a chain of DECLARED values into ONE object (0xFF before 0x00, every ordered pair of declared
//	                 values); name/String() must be what a fresh object gives for the last value. (What an
//	                 undeclared value maps to is not demanded by the property; the carry-over of KeyStrength.Name
//	                 to an undeclared value on the unchanged tree is counted as an observation.)
//	stale fields   - Value is assigned directly after a decode of another value; String() must name the
//	                 current Value.
//	held outputs   - slices returned by UserAccountControl.GetFlags and the Name slices of
//	                 CustomKeyInformationFlags are kept (ring of 64) and compared again later.
//	order / callers- every name lookup (String(), Description(), NT_STATUS.Error()) is first tabulated by one
//	                 caller in ascending order; then the same table is asked in descending and in strided
//	                 order (a memo keyed too coarsely answers differently after a neighbour), and by 8 goroutines
//	                 at once; every answer must be the single-caller value.

import (
	"fmt"
	"sort"
	"strings"
	"sync"

	"github.com/TheManticoreProject/Manticore/network/ldap/ldap_attributes"
	"github.com/TheManticoreProject/Manticore/windows/keycredential/key"
	"github.com/TheManticoreProject/Manticore/windows/nt_status"

	"verif/mon"
)

// ---------------------------------------------------------------------------
// receivers

type receiverBinding struct {
	Entry  string
	Family string // enum/flag family id whose declared values form the chain
	// New returns decode (into one object), name (of that object), and assign (Value := v without decode; nil if
	// the type has no derived reading to go stale)
	New func() (decode func(v uint64), name func() string, assign func(v uint64))
}

var receiverBindings = []receiverBinding{
	{"key.CustomKeyInformationFlags.FromBytes", "ckiflags", func() (func(uint64), func() string, func(uint64)) {
		var x key.CustomKeyInformationFlags
		return func(v uint64) { x.FromBytes(byte(v)) }, func() string { return fmt.Sprintf("%d:%s", x.Value, strings.Join(x.Name, nameSep)) }, nil
	}},
	{"key.KeyStrength.FromBytes", "key.KeyStrength", func() (func(uint64), func() string, func(uint64)) {
		var x key.KeyStrength
		return func(v uint64) { x.FromBytes(le32(v)) }, func() string { return fmt.Sprintf("%d:%s", x.Value, x.Name) }, nil
	}},
	{"key.KeyUsage.FromBytes", "key.KeyUsage", func() (func(uint64), func() string, func(uint64)) {
		var x key.KeyUsage
		return func(v uint64) { x.FromBytes(byte(v)) }, func() string { return fmt.Sprintf("%d:%s", x.Value, x.String()) }, func(v uint64) { x.Value = uint8(v) }
	}},
	{"key.CustomKeyInformationVolumeType.FromBytes", "key.CustomKeyInformationVolumeType", func() (func(uint64), func() string, func(uint64)) {
		var x key.CustomKeyInformationVolumeType
		return func(v uint64) { x.FromBytes(byte(v)) }, func() string { return fmt.Sprintf("%d:%s", x.Value, x.String()) }, func(v uint64) { x.Value = uint8(v) }
	}},
	{"key.KeyCredentialEntryType.FromBytes", "key.KeyCredentialEntryType", func() (func(uint64), func() string, func(uint64)) {
		var x key.KeyCredentialEntryType
		return func(v uint64) { x.FromBytes(byte(v)) }, func() string { return fmt.Sprintf("%d:%s", x.Value, x.String()) }, func(v uint64) { x.Value = uint8(v) }
	}},
	{"key.KeyCredentialVersion.FromBytes", "key.KeyCredentialVersion", func() (func(uint64), func() string, func(uint64)) {
		var x key.KeyCredentialVersion
		return func(v uint64) { x.FromBytes(le32(v)) }, func() string { return fmt.Sprintf("%d:%s", x.Value, x.String()) }, func(v uint64) { x.Value = uint32(v) }
	}},
}

func familyValues(src *source, id string) []uint64 {
	for _, f := range enumFamilies {
		if f.ID == id {
			vals, _ := byValue(src.claim(f.Dir, f.Type, f.Prefix))
			return vals
		}
	}
	for _, f := range flagFamilies {
		if f.ID == id {
			// a flag byte: every word is a legitimate value
			var vals []uint64
			for w := uint64(0); w < 1<<uint(f.Width) && w < 256; w++ {
				vals = append(vals, w)
			}
			return vals
		}
	}
	return nil
}

func receiverChains(src *source) {
	for _, b := range receiverBindings {
		vals := familyValues(src, b.Family)
		if len(vals) < 2 {
			r.Inconclusive("state monitors: no declared values for " + b.Family)
			continue
		}
		fresh := map[uint64]string{}
		ok := guard(b.Entry, map[string]any{"family": b.Family}, func() {
			for _, v := range vals {
				dec, name, _ := b.New()
				dec(v)
				fresh[v] = name()
			}
		})
		if !ok {
			continue
		}
		// chain: descending (big-then-small), ascending, then every ordered pair (capped for the 256 flag words)
		var chain []uint64
		for i := len(vals) - 1; i >= 0; i-- {
			chain = append(chain, vals[i])
		}
		chain = append(chain, vals...)
		if len(vals) <= 16 {
			for _, u := range vals {
				for _, v := range vals {
					chain = append(chain, u, v)
				}
			}
		} else {
			for _, v := range vals {
				chain = append(chain, v^0xFF, v, 0xFF, v, 0, v)
			}
		}
		guard(b.Entry, map[string]any{"family": b.Family}, func() {
			dec, name, assign := b.New()
			prev := "nothing"
			for i, v := range chain {
				dec(v)
				got := name()
				r.Eval(1)
				cs := map[string]any{"family": b.Family, "value": fmt.Sprintf("0x%X", v), "decoded_before_into_same_object": prev}
				if got != fresh[v] {
					r.Violation(b.Entry+":reused-receiver", fmt.Sprintf("%s(0x%X) into an object that had decoded %s reads %q; a fresh object reads %q", b.Entry, v, prev, got, fresh[v]), cs)
				}
				if assign != nil {
					o := chain[(i*3+1)%len(chain)]
					assign(o)
					r.Eval(1)
					if got := name(); got != fresh[o] {
						r.Violation(strings.TrimSuffix(b.Entry, ".FromBytes")+".String:stale-fields", fmt.Sprintf("Value=0x%X assigned on an object that had decoded 0x%X: it reads %q; a fresh object reads %q", o, v, got, fresh[o]), cs)
					}
					dec(v)
				}
				prev = fmt.Sprintf("0x%X", v)
			}
		})
		r.Nontrivial("reuse|" + b.Entry)
		r.Count("reuse_chain:"+b.Family, len(chain))
	}
	// observation on the unchanged tree (not demanded: undeclared value)
	var ks key.KeyStrength
	mon.Guard(func() {
		ks.FromBytes(le32(1))
		ks.FromBytes(le32(0x7777))
		if ks.Name != "" {
			r.Count("keystrength_name_carried_over_to_undeclared_value(observation, not judged)", 1)
		}
	})
}

// ---------------------------------------------------------------------------
// held outputs

type heldFlags struct {
	input string
	out   []ldap_attributes.UserAccountControl
	want  []ldap_attributes.UserAccountControl
}

type heldNames struct {
	input string
	out   []string
	want  []string
}

func heldOutputs() {
	rng := r.Rand("held")
	var ringF [64]*heldFlags
	var ringN [64]*heldNames
	verifyF := func(e *heldFlags, when string) {
		if e == nil {
			return
		}
		r.Eval(1)
		if fmt.Sprint(e.out) != fmt.Sprint(e.want) {
			r.Violation("uac.GetFlags:held-output-changed", fmt.Sprintf("the slice returned by GetFlags() for %s read %v when it was returned and reads %v %s", e.input, e.want, e.out, when), map[string]any{"word": e.input, "when": when})
			e.want = append(e.want[:0], e.out...)
		}
	}
	verifyN := func(e *heldNames, when string) {
		if e == nil {
			return
		}
		r.Eval(1)
		if strings.Join(e.out, nameSep) != strings.Join(e.want, nameSep) {
			r.Violation("key.CustomKeyInformationFlags.FromBytes:held-output-changed", fmt.Sprintf("the Name slice decoded for %s read %q when it was returned and reads %q %s", e.input, e.want, e.out, when), map[string]any{"byte": e.input, "when": when})
			e.want = append(e.want[:0], e.out...)
		}
	}
	n := r.Pick(20000, 200000)
	var x key.CustomKeyInformationFlags // one receiver: names handed out earlier must survive later decodes
	guard("held-outputs", nil, func() {
		for i := 0; i < n; i++ {
			w := rng.Uint32()
			switch i % 4 {
			case 0:
				w = 0xFFFFFFFF
			case 1:
				w &= rng.Uint32()
			}
			out := ldap_attributes.UserAccountControl(w).GetFlags()
			e := &heldFlags{input: fmt.Sprintf("0x%08X", w), out: out, want: append([]ldap_attributes.UserAccountControl{}, out...)}
			verifyF(ringF[i%64], "64 calls later")
			if i > 0 {
				verifyF(ringF[(i-1)%64], "after the next call")
			}
			ringF[i%64] = e
			b := byte(w >> uint(i%24))
			if i%3 == 0 {
				var y key.CustomKeyInformationFlags
				y.FromBytes(b)
				x = y
			} else {
				x.FromBytes(b)
			}
			en := &heldNames{input: fmt.Sprintf("0x%02X", b), out: x.Name, want: append([]string{}, x.Name...)}
			verifyN(ringN[i%64], "64 calls later")
			if i > 0 {
				verifyN(ringN[(i-1)%64], "after the next call")
			}
			ringN[i%64] = en
		}
		for i := range ringF {
			verifyF(ringF[i], "at the end of the run")
			verifyN(ringN[i], "at the end of the run")
		}
	})
	r.Count("held_outputs", 2*n)
	r.Nontrivial("held|uac.GetFlags")
	r.Nontrivial("held|ckiflags.Name")
}

// ---------------------------------------------------------------------------
// order dependence and concurrent callers of the name lookups

type table struct {
	entry string
	f     func(v uint64) string
	vals  []uint64
	base  []string
}

func lookupTables(src *source) []*table {
	var ts []*table
	for _, f := range enumFamilies {
		vals, byVal := byValue(src.claim(f.Dir, f.Type, f.Prefix))
		if len(vals) == 0 {
			continue
		}
		all := append([]uint64{}, vals...)
		all = append(all, undeclaredSamples(f.Width, byVal, vals)...)
		// neighbours of declared values that are not declared themselves
		for _, v := range vals {
			for _, u := range []uint64{v + 1, v ^ 0x100, v | 1<<uint(f.Width-1)} {
				u &= mask(f.Width)
				if _, ok := byVal[u]; !ok && len(all) < len(vals)+400 {
					all = append(all, u)
				}
			}
		}
		sort.Slice(all, func(i, j int) bool { return all[i] < all[j] })
		for _, lk := range f.Lookups {
			ts = append(ts, &table{entry: lk.Entry, f: lk.F, vals: all})
		}
		if f.ID == "nt_status.NT_STATUS" {
			ts = append(ts, &table{entry: "nt_status.Error", vals: all, f: func(v uint64) string {
				e := nt_status.NT_STATUS(v).Error()
				if e == nil {
					return "<nil>"
				}
				return e.Error()
			}})
		}
	}
	for _, f := range flagFamilies {
		for _, d := range f.Dec {
			words := boundaryWords(f.Width, nil)
			if len(words) > 1200 {
				words = words[:1200]
			}
			ts = append(ts, &table{entry: d.Entry, f: d.F, vals: words})
		}
	}
	return ts
}

func orderAndCallers(src *source) {
	ts := lookupTables(src)
	for _, t := range ts {
		t.base = make([]string, len(t.vals))
		if !guard(t.entry, map[string]any{"phase": "single caller, ascending"}, func() {
			for i, v := range t.vals {
				t.base[i] = t.f(v)
			}
		}) {
			t.base = nil
			continue
		}
		r.Eval(len(t.vals))
		// other orders, one caller
		n := len(t.vals)
		orders := map[string]func(i int) int{
			"descending": func(i int) int { return n - 1 - i },
			"stride-7":   func(i int) int { return (i*7 + 3) % n },
			"each-twice-after-its-successor": func(i int) int {
				if i%2 == 0 {
					return (i/2 + 1) % n
				}
				return i / 2
			},
		}
		for _, name := range []string{"descending", "stride-7", "each-twice-after-its-successor"} {
			ord := orders[name]
			guard(t.entry, map[string]any{"phase": name}, func() {
				prev := -1
				for i := 0; i < n; i++ {
					k := ord(i)
					got := t.f(t.vals[k])
					r.Eval(1)
					if got != t.base[k] {
						pv := "nothing"
						if prev >= 0 {
							pv = fmt.Sprintf("0x%X", t.vals[prev])
						}
						r.Violation(t.entry+":order-dependent", fmt.Sprintf("%s(0x%X) asked right after %s (order %s) = %q; asked in ascending order it was %q", t.entry, t.vals[k], pv, name, got, t.base[k]),
							map[string]any{"value": fmt.Sprintf("0x%X", t.vals[k]), "asked_just_before": pv, "order": name})
					}
					prev = k
				}
			})
		}
		r.Nontrivial("order|" + t.entry)
	}
	// 8 goroutines over all tables at once
	var wg sync.WaitGroup
	for w := 0; w < 8; w++ {
		wg.Add(1)
		go func() {
			defer wg.Done()
			for round := 0; round < 3; round++ {
				for x := range ts {
					t := ts[(x+w)%len(ts)]
					if t.base == nil {
						continue
					}
					n := len(t.vals)
					guard(t.entry, map[string]any{"phase": "8 concurrent callers"}, func() {
						for i := 0; i < n; i++ {
							k := (i*(2*w+1) + w*n/8) % n
							got := t.f(t.vals[k])
							if got != t.base[k] {
								r.Violation(t.entry+":concurrent-callers", fmt.Sprintf("8 goroutines asking unrelated values: %s(0x%X) = %q; the single-caller value is %q", t.entry, t.vals[k], got, t.base[k]),
									map[string]any{"value": fmt.Sprintf("0x%X", t.vals[k]), "callers": 8})
							}
						}
					})
					r.Eval(n)
				}
			}
		}()
	}
	wg.Wait()
	r.Nontrivial("concurrent|lookups")
	r.Count("lookup_tables_asked_out_of_order_and_concurrently", len(ts))
}

func stateMonitors(src *source) {
	receiverChains(src)
	heldOutputs()
	orderAndCallers(src)
}
