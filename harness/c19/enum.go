// Source enumeration for C19: the constant tables are read from the tree at
// mon.RepoRoot() every time the check runs (go/parser for the declarations,
// go/types only to fold the constant expressions `1 << 7`, iota, references to
// other constants). Nothing here decides anything: it produces the list of
// (identifier, value) pairs the library is then *executed* on.
package main

import (
	"fmt"
	"go/ast"
	"go/constant"
	"go/parser"
	"go/token"
	"go/types"
	"os"
	"path/filepath"
	"sort"
	"strings"
)

// Const is one declared constant of an anchored file.
type Const struct {
	Dir     string // directory relative to the repo root
	File    string // base name
	Block   int    // index of the const(...) declaration inside its file
	Ident   string
	Type    string // named type ("CommandCode") or "" for untyped / basic-typed constants
	IsInt   bool
	Val     uint64 // when IsInt
	Str     string // when a string constant
	claimed bool
}

// MethodDecl is a method found in the source (used to notice predicates or
// String methods for which the harness has no binding).
type MethodDecl struct {
	Dir, Recv, Name string
	NoArgs          bool
	Result          string
}

type fakeImporter struct{}

func (fakeImporter) Import(path string) (*types.Package, error) {
	name := path
	if i := strings.LastIndex(path, "/"); i >= 0 {
		name = path[i+1:]
	}
	p := types.NewPackage(path, name)
	p.MarkComplete()
	return p, nil
}

// enumerateDir parses every non-test .go file of dir (optionally only the
// named files) and returns its constants in declaration order.
func enumerateDir(root, rel string, only ...string) ([]*Const, []MethodDecl, error) {
	dir := filepath.Join(root, rel)
	ents, err := os.ReadDir(dir)
	if err != nil {
		return nil, nil, err
	}
	fset := token.NewFileSet()
	var files []*ast.File
	var names []string
	for _, e := range ents {
		n := e.Name()
		if e.IsDir() || !strings.HasSuffix(n, ".go") || strings.HasSuffix(n, "_test.go") {
			continue
		}
		if len(only) > 0 {
			ok := false
			for _, o := range only {
				if o == n {
					ok = true
				}
			}
			if !ok {
				continue
			}
		}
		f, err := parser.ParseFile(fset, filepath.Join(dir, n), nil, parser.SkipObjectResolution)
		if err != nil {
			return nil, nil, fmt.Errorf("parse %s/%s: %v", rel, n, err)
		}
		files = append(files, f)
		names = append(names, n)
	}
	if len(files) == 0 {
		return nil, nil, fmt.Errorf("no source files in %s", rel)
	}
	info := &types.Info{Defs: map[*ast.Ident]types.Object{}}
	conf := types.Config{Importer: fakeImporter{}, Error: func(error) {}, DisableUnusedImportCheck: true}
	conf.Check(rel, fset, files, info) // errors about the faked imports are expected and ignored

	var out []*Const
	var meths []MethodDecl
	for fi, f := range files {
		block := 0
		for _, d := range f.Decls {
			switch d := d.(type) {
			case *ast.GenDecl:
				if d.Tok != token.CONST {
					continue
				}
				for _, s := range d.Specs {
					vs := s.(*ast.ValueSpec)
					for _, id := range vs.Names {
						if id.Name == "_" {
							continue
						}
						obj, _ := info.Defs[id].(*types.Const)
						if obj == nil || obj.Val() == nil || obj.Val().Kind() == constant.Unknown {
							return nil, nil, fmt.Errorf("%s/%s: constant %s could not be evaluated", rel, names[fi], id.Name)
						}
						c := &Const{Dir: rel, File: names[fi], Block: block, Ident: id.Name}
						if nt, ok := obj.Type().(*types.Named); ok {
							c.Type = nt.Obj().Name()
						}
						switch obj.Val().Kind() {
						case constant.Int:
							u, exact := constant.Uint64Val(obj.Val())
							if !exact {
								i, ok := constant.Int64Val(obj.Val())
								if !ok {
									return nil, nil, fmt.Errorf("%s: constant %s out of range", rel, id.Name)
								}
								u = uint64(i)
							}
							c.IsInt, c.Val = true, u
						case constant.String:
							c.Str = constant.StringVal(obj.Val())
						default:
							continue
						}
						out = append(out, c)
					}
				}
				block++
			case *ast.FuncDecl:
				if d.Recv == nil || len(d.Recv.List) != 1 {
					continue
				}
				t := d.Recv.List[0].Type
				if st, ok := t.(*ast.StarExpr); ok {
					t = st.X
				}
				rid, ok := t.(*ast.Ident)
				if !ok {
					continue
				}
				m := MethodDecl{Dir: rel, Recv: rid.Name, Name: d.Name.Name, NoArgs: d.Type.Params == nil || len(d.Type.Params.List) == 0}
				if d.Type.Results != nil && len(d.Type.Results.List) == 1 {
					if ri, ok := d.Type.Results.List[0].Type.(*ast.Ident); ok {
						m.Result = ri.Name
					}
				}
				meths = append(meths, m)
			}
		}
	}
	return out, meths, nil
}

// commonPrefix returns the longest prefix shared by all identifiers, cut back
// to the last '_' (the "family prefix").
func commonPrefix(ids []string) string {
	if len(ids) == 0 {
		return ""
	}
	p := ids[0]
	for _, s := range ids[1:] {
		for !strings.HasPrefix(s, p) {
			p = p[:len(p)-1]
		}
	}
	i := strings.LastIndex(p, "_")
	if i < 0 {
		return ""
	}
	p = p[:i+1]
	for _, s := range ids {
		if s == p { // never strip a whole identifier
			return ""
		}
	}
	return p
}

// byValue groups integer constants by value, keeping declaration order.
func byValue(cs []*Const) (vals []uint64, idents map[uint64][]string) {
	idents = map[uint64][]string{}
	for _, c := range cs {
		if !c.IsInt {
			continue
		}
		if _, ok := idents[c.Val]; !ok {
			vals = append(vals, c.Val)
		}
		idents[c.Val] = append(idents[c.Val], c.Ident)
	}
	sort.Slice(vals, func(i, j int) bool { return vals[i] < vals[j] })
	return
}
