// Hand-written tables from the governing documents, independent of the source
// tree: which bit (and which polarity) every predicate must test, and which
// value the standard assigns to each named flag.
//
//	MS-CIFS 2.2.3.1 (SMB_Header Flags / Flags2), MS-SMB 2.2.3.1 (Flags2 additions:
//	COMPRESSED 0x0008, SECURITY_SIGNATURE_REQUIRED 0x0010, REPARSE_PATH 0x0400,
//	EXTENDED_SECURITY 0x0800), MS-CIFS 2.2.4.52.2 (Capabilities, SecurityMode),
//	MS-ADTS 2.2.16 / MS-SAMR 2.2.1.12 (userAccountControl), MS-ADTS 2.2.20.5.? /
//	CUSTOM_KEY_INFORMATION (key-credential flags).
package main

// predSpec: the predicate is true exactly when (w & Mask != 0) == WhenSet.
type predSpec struct {
	Ident   string // the library constant the predicate is named after
	Mask    uint64 // value the standard gives that flag
	WhenSet bool
}

var predSpecs = map[string]map[string]predSpec{
	"flags": {
		"IsLockAndReadOk":      {"FLAGS_LOCK_AND_READ_OK", 0x01, true},
		"IsBufAvail":           {"FLAGS_BUF_AVAIL", 0x02, true},
		"IsReserved":           {"FLAGS_RESERVED", 0x04, true},
		"IsCaseInsensitive":    {"FLAGS_CASE_INSENSITIVE", 0x08, true},
		"IsCanonicalizedPaths": {"FLAGS_CANONICALIZED_PATHS", 0x10, true},
		"IsOplock":             {"FLAGS_OPLOCK", 0x20, true},
		"IsOplockBatch":        {"FLAGS_OPBATCH", 0x40, true},
		"IsReply":              {"FLAGS_REPLY", 0x80, true},
	},
	"flags2": {
		"IsLongNamesAllowed":          {"FLAGS2_LONG_NAMES_ALLOWED", 0x0001, true},
		"IsExtendedAttributes":        {"FLAGS2_EXTENDED_ATTRIBUTES", 0x0002, true},
		"IsSecuritySignature":         {"FLAGS2_SECURITY_SIGNATURE", 0x0004, true},
		"IsCompressed":                {"FLAGS2_COMPRESSED", 0x0008, true},
		"IsSecuritySignatureRequired": {"FLAGS2_SECURITY_SIGNATURE_REQUIRED", 0x0010, true},
		"IsLongNamesUsed":             {"FLAGS2_LONG_NAMES_USED", 0x0040, true},
		"IsReparsePathUsed":           {"FLAGS2_REPARSE_PATH", 0x0400, true},
		"IsExtendedSecurity":          {"FLAGS2_EXTENDED_SECURITY", 0x0800, true},
		"IsDfs":                       {"FLAGS2_DFS", 0x1000, true},
		"IsPagingIO":                  {"FLAGS2_PAGING_IO", 0x2000, true},
		"IsNTStatusErrorCodes":        {"FLAGS2_NT_STATUS_ERROR_CODES", 0x4000, true},
		"IsUnicode":                   {"FLAGS2_UNICODE", 0x8000, true},
	},
	"securitymode": {
		"SupportsPlaintextPasswordAuth":   {"NEGOTIATE_ENCRYPT_PASSWORDS", 0x02, false},
		"SupportsChallengeResponseAuth":   {"NEGOTIATE_ENCRYPT_PASSWORDS", 0x02, true},
		"SupportsShareLevelAccessControl": {"NEGOTIATE_USER_SECURITY", 0x01, false},
		"SupportsUserLevelAccessControl":  {"NEGOTIATE_USER_SECURITY", 0x01, true},
		"IsSecuritySignatureEnabled":      {"NEGOTIATE_SECURITY_SIGNATURES_ENABLED", 0x04, true},
		"IsSecuritySignatureRequired":     {"NEGOTIATE_SECURITY_SIGNATURES_REQUIRED", 0x08, true},
	},
}

// specValues: value the standard assigns to the flag a library constant is
// named after. Only constants that exist in the tree are judged.
var specValues = map[string]map[string]uint64{
	"flags": {
		"FLAGS_LOCK_AND_READ_OK": 0x01, "FLAGS_BUF_AVAIL": 0x02, "FLAGS_CASE_INSENSITIVE": 0x08,
		"FLAGS_CANONICALIZED_PATHS": 0x10, "FLAGS_OPLOCK": 0x20, "FLAGS_OPBATCH": 0x40, "FLAGS_REPLY": 0x80,
	},
	"flags2": {
		"FLAGS2_LONG_NAMES_ALLOWED": 0x0001, "FLAGS2_EXTENDED_ATTRIBUTES": 0x0002, "FLAGS2_SECURITY_SIGNATURE": 0x0004,
		"FLAGS2_COMPRESSED": 0x0008, "FLAGS2_SECURITY_SIGNATURE_REQUIRED": 0x0010, "FLAGS2_LONG_NAMES_USED": 0x0040,
		"FLAGS2_REPARSE_PATH": 0x0400, "FLAGS2_EXTENDED_SECURITY": 0x0800, "FLAGS2_DFS": 0x1000,
		"FLAGS2_PAGING_IO": 0x2000, "FLAGS2_NT_STATUS_ERROR_CODES": 0x4000, "FLAGS2_UNICODE": 0x8000,
	},
	"capabilities": {
		"CAP_RAW_MODE": 0x0001, "CAP_MPX_MODE": 0x0002, "CAP_UNICODE": 0x0004, "CAP_LARGE_FILES": 0x0008,
		"CAP_NT_SMBS": 0x0010, "CAP_RPC_REMOTE_APIS": 0x0020, "CAP_STATUS32": 0x0040, "CAP_LEVEL_II_OPLOCKS": 0x0080,
		"CAP_LOCK_AND_READ": 0x0100, "CAP_NT_FIND": 0x0200, "CAP_DFS": 0x1000, "CAP_LARGE_READX": 0x4000,
	},
	"uac": {
		"UAF_SCRIPT": 0x00000001, "UAF_ACCOUNT_DISABLED": 0x00000002, "UAF_HOMEDIR_REQUIRED": 0x00000008,
		"UAF_LOCKOUT": 0x00000010, "UAF_PASSWD_NOTREQD": 0x00000020, "UAF_PASSWD_CANT_CHANGE": 0x00000040,
		"UAF_ENCRYPTED_TEXT_PWD_ALLOWED": 0x00000080, "UAF_TEMP_DUPLICATE_ACCOUNT": 0x00000100,
		"UAF_NORMAL_ACCOUNT": 0x00000200, "UAF_INTERDOMAIN_TRUST_ACCOUNT": 0x00000800,
		"UAF_WORKSTATION_TRUST_ACCOUNT": 0x00001000, "UAF_SERVER_TRUST_ACCOUNT": 0x00002000,
		"UAF_DONT_EXPIRE_PASSWORD": 0x00010000, "UAF_MNS_LOGON_ACCOUNT": 0x00020000,
		"UAF_SMARTCARD_REQUIRED": 0x00040000, "UAF_TRUSTED_FOR_DELEGATION": 0x00080000,
		"UAF_NOT_DELEGATED": 0x00100000, "UAF_USE_DES_KEY_ONLY": 0x00200000, "UAF_DONT_REQ_PREAUTH": 0x00400000,
		"UAF_PASSWORD_EXPIRED": 0x00800000, "UAF_TRUSTED_TO_AUTH_FOR_DELEGATION": 0x01000000,
		"UAF_PARTIAL_SECRETS_ACCOUNT": 0x04000000,
	},
	"ckiflags": {
		"CustomKeyInformationFlags_Attestation": 0x01, "CustomKeyInformationFlags_MFANotUsed": 0x02,
	},
}
