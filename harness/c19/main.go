// C19: flag words decompose faithfully and every named constant has a unique name.
//
// The constant tables are enumerated from the source tree at mon.RepoRoot() when
// the check starts; the compiled library is then executed on every enumerated
// value and on exhaustive / seeded sets of flag words, and an independent oracle
// (homomorphism of the decomposition, sensitivity masks of the predicates,
// hand-written standard tables, injectivity and faithfulness of names) judges
// every result.
package main

import (
	"fmt"
	"math/bits"
	"reflect"
	"regexp"
	"sort"
	"strings"
	"sync"

	"github.com/TheManticoreProject/Manticore/windows/nt_status"

	"verif/mon"
)

var r *mon.Run

const repeat = 50 // every String()/GetFlags() is called this many times per word (map-iteration order)

// ---------------------------------------------------------------------------
// helpers

func normAlnum(s string) string {
	var b strings.Builder
	for _, c := range strings.ToLower(s) {
		if (c >= 'a' && c <= 'z') || (c >= '0' && c <= '9') {
			b.WriteRune(c)
		}
	}
	return b.String()
}

func isSubsequence(needle, hay string) bool {
	i := 0
	for j := 0; j < len(hay) && i < len(needle); j++ {
		if hay[j] == needle[i] {
			i++
		}
	}
	return i == len(needle)
}

// faithful: does name denote identifier id of a family whose common prefix is cp?
func faithful(mode nameMode, name, id, cp string) bool {
	switch mode {
	case exactName:
		if name == id {
			return true
		}
		if name == "" || !strings.HasSuffix(id, name) {
			return false
		}
		cut := len(id) - len(name)
		return cut <= len(cp) && id[cut-1] == '_'
	case freeText:
		short := normAlnum(strings.TrimPrefix(id, cp))
		return short != "" && isSubsequence(short, normAlnum(name))
	}
	return true
}

func faithfulAny(mode nameMode, name string, ids []string, cp string) bool {
	for _, id := range ids {
		if faithful(mode, name, id, cp) {
			return true
		}
	}
	return false
}

var digits = regexp.MustCompile(`[0-9]+`)

// skeleton removes the numeric part of a rendering so that "CommandCode(22)"
// and "CommandCode(7)" compare equal.
func skeleton(s string) string {
	return digits.ReplaceAllString(s, "#")
}

func isReservedIdent(id string) bool {
	u := strings.ToUpper(id)
	return strings.Contains(u, "RESERVED") || strings.Contains(u, "UNUSED")
}

func mask(width int) uint64 {
	if width >= 64 {
		return ^uint64(0)
	}
	return (uint64(1) << uint(width)) - 1
}

func guard(entry string, cs any, f func()) bool {
	p, v, st := mon.Guard(f)
	if p {
		r.Violation(entry+":panic:"+mon.PanicClass(v), fmt.Sprintf("panic %v at %s", v, mon.TopLibFrame(st)), cs)
	}
	return !p
}

// perConst reports a violation keyed by the constant it concerns. A systematic
// fault (say Error() printing a truncated code) would otherwise produce one key
// per table row: after the first perConstKeys constants of one (entry, class) the
// rest are folded into "<entry>:<class>:and-more". Constants are visited in
// ascending value order, so the key set is the same on every run.
const perConstKeys = 8

var perConstSeen = map[string]map[string]bool{}

func perConst(entry, class, ident, what string, cs any) {
	k := entry + ":" + class
	m := perConstSeen[k]
	if m == nil {
		m = map[string]bool{}
		perConstSeen[k] = m
	}
	if !m[ident] && len(m) >= perConstKeys {
		r.Violation(k+":and-more", "further constants with the same failure — "+what, cs)
		return
	}
	m[ident] = true
	r.Violation(k+":"+ident, what, cs)
}

// ---------------------------------------------------------------------------
// source enumeration and claiming

type source struct {
	consts  map[string][]*Const // by directory
	methods map[string][]MethodDecl
}

func loadSource() *source {
	s := &source{consts: map[string][]*Const{}, methods: map[string][]MethodDecl{}}
	total := 0
	for _, a := range anchors {
		cs, ms, err := enumerateDir(mon.RepoRoot(), a.Dir, a.Files...)
		if err != nil {
			r.Inconclusive("cannot enumerate constants from the source: " + err.Error())
			continue
		}
		s.consts[a.Dir] = cs
		s.methods[a.Dir] = ms
		total += len(cs)
	}
	r.Count("constants_enumerated_from_source", total)
	return s
}

func (s *source) claim(dir, typ, prefix string) []*Const {
	var out []*Const
	for _, c := range s.consts[dir] {
		if !c.IsInt {
			continue
		}
		if typ != "" && c.Type == typ {
			out = append(out, c)
			c.claimed = true
		} else if typ == "" && prefix != "" && c.Type == "" && strings.HasPrefix(c.Ident, prefix) {
			out = append(out, c)
			c.claimed = true
		}
	}
	return out
}

func idents(cs []*Const) []string {
	out := make([]string, len(cs))
	for i, c := range cs {
		out[i] = c.Ident
	}
	return out
}

// ---------------------------------------------------------------------------
// constant tables

func undeclaredSamples(width int, declared map[uint64][]string, vals []uint64) []uint64 {
	m := mask(width)
	var out []uint64
	add := func(u uint64) {
		u &= m
		if _, ok := declared[u]; ok {
			return
		}
		for _, x := range out {
			if x == u {
				return
			}
		}
		out = append(out, u)
	}
	add(m)
	add(m - 1)
	if len(vals) > 0 {
		add(vals[len(vals)-1] + 1)
	}
	for u := uint64(0); u < 4096 && len(out) < 5; u++ { // first gaps
		add(u)
	}
	add(0x5A5A5A5A5A5A5A5A)
	return out
}

func checkEnumFamily(src *source, f enumFamily) {
	cs := src.claim(f.Dir, f.Type, f.Prefix)
	if len(cs) == 0 {
		r.Inconclusive(fmt.Sprintf("family %s: no constants found in %s (type %q prefix %q) — bindings need maintenance", f.ID, f.Dir, f.Type, f.Prefix))
		return
	}
	cp := commonPrefix(idents(cs))
	vals, byVal := byValue(cs)
	r.Count("constants:"+f.ID, len(cs))
	und := undeclaredSamples(f.Width, byVal, vals)

	for _, lk := range f.Lookups {
		// what the function says for values that are not declared (the placeholder)
		ph := map[string]uint64{}
		for _, u := range und {
			u := u
			var s string
			if guard(lk.Entry, map[string]any{"value": u, "declared": false}, func() { s = lk.F(u) }) {
				ph[skeleton(s)] = u
			}
			r.Eval(1)
		}
		seen := map[string]uint64{}
		for i, v := range vals {
			v := v
			ids := byVal[v]
			id0 := ids[0]
			cse := map[string]any{"family": f.ID, "value": fmt.Sprintf("0x%X", v), "identifiers": ids}
			var name, again string
			ok := guard(lk.Entry, cse, func() { name = lk.F(v); again = lk.F(v) })
			r.Eval(2)
			if !ok {
				continue
			}
			cse["name"] = name
			if len(vals) >= 2 {
				r.Nontrivial(fmt.Sprintf("const|%s|%d", lk.Entry, v))
			}
			if name != again {
				perConst(lk.Entry, "nondeterministic", id0, fmt.Sprintf("%s for %s (0x%X) gave %q then %q", lk.Entry, id0, v, name, again), cse)
			}
			names := lk.Mode != opaque && faithfulAny(lk.Mode, name, ids, cp)
			if name == "" {
				perConst(lk.Entry, "placeholder", id0, fmt.Sprintf("declared constant %s (0x%X) maps to the empty string", id0, v), cse)
			} else if u, isPh := ph[skeleton(name)]; isPh && !names {
				perConst(lk.Entry, "placeholder", id0, fmt.Sprintf("declared constant %s (0x%X) maps to %q, which is what the undeclared value 0x%X maps to", id0, v, name, u), cse)
			} else if lk.Mode != opaque && !names {
				perConst(lk.Entry, "wrong-name", id0, fmt.Sprintf("declared constant %s (0x%X) maps to %q, which is not the name of any constant with that value (%v, family prefix %q)", id0, v, name, ids, cp), cse)
			}
			if name != "" {
				if w, dup := seen[name]; dup {
					perConst(lk.Entry, "duplicate-name", id0, fmt.Sprintf("distinct values 0x%X (%s) and 0x%X (%s) both map to %q", w, byVal[w][0], v, id0, name), cse)
				} else {
					seen[name] = v
				}
			}
			if i == len(vals)/2 && sampleFamilies[f.ID] {
				r.Sample(map[string]any{"kind": "constant", "entry": lk.Entry, "identifier": id0, "value": fmt.Sprintf("0x%X", v), "name": name})
			}
		}
	}
}

var sampleFamilies = map[string]bool{"codes.CommandCode": true, "subcommands.Transaction2": true, "nt_status.NT_STATUS": true, "key.KeyUsage": true}

var hexInText = regexp.MustCompile(`0[xX]([0-9a-fA-F]+)`)

// checkNTStatusError: every declared status other than NT_STATUS_SUCCESS yields a
// non-nil error whose text carries the numeric code in hexadecimal.
func checkNTStatusError(src *source) {
	var cs []*Const
	for _, c := range src.consts[dirNT] {
		if c.IsInt && c.Type == "NT_STATUS" {
			cs = append(cs, c)
		}
	}
	vals, byVal := byValue(cs)
	const entry = "nt_status.Error"
	for i, v := range vals {
		v := v
		id0 := byVal[v][0]
		cse := map[string]any{"value": fmt.Sprintf("0x%08X", v), "identifiers": byVal[v]}
		var e1, e2 error
		ok := guard(entry, cse, func() { e1 = nt_status.NT_STATUS(v).Error(); e2 = nt_status.NT_STATUS(v).Error() })
		r.Eval(2)
		if !ok {
			continue
		}
		r.Nontrivial(fmt.Sprintf("nterr|%d", v))
		if v == 0 {
			if e1 != nil {
				r.Violation(entry+":success-is-error", fmt.Sprintf("NT_STATUS_SUCCESS.Error() = %v", e1), cse)
			}
			continue
		}
		if e1 == nil {
			perConst(entry, "nil-error", id0, fmt.Sprintf("declared non-success status %s (0x%08X) has Error() == nil", id0, v), cse)
			continue
		}
		txt := e1.Error()
		cse["error"] = txt
		if e2 == nil || e2.Error() != txt {
			perConst(entry, "nondeterministic", id0, fmt.Sprintf("Error() of %s differs between two calls", id0), cse)
		}
		found := false
		for _, m := range hexInText.FindAllStringSubmatch(txt, -1) {
			var x uint64
			if _, err := fmt.Sscanf(m[1], "%x", &x); err == nil && x == v {
				found = true
			}
		}
		if !found {
			perConst(entry, "code-missing", id0, fmt.Sprintf("Error() of %s (0x%08X) does not mention the code in hex: %q", id0, v, txt), cse)
		}
		if i == len(vals)/2 {
			r.Sample(map[string]any{"kind": "nt_status.Error", "identifier": id0, "value": fmt.Sprintf("0x%08X", v), "error": txt})
		}
	}
	// The error table itself: two different statuses must not share one error object
	// (a copy-pasted row), and no row may hold a nil error.
	type row struct {
		k nt_status.NT_STATUS
		e error
	}
	var rows []row
	for k, e := range nt_status.NTStatusToGoErrorMap {
		rows = append(rows, row{k, e})
	}
	sort.Slice(rows, func(i, j int) bool { return rows[i].k < rows[j].k })
	owner := map[error]nt_status.NT_STATUS{}
	for _, rw := range rows {
		r.Eval(1)
		name := fmt.Sprintf("0x%08X", uint32(rw.k))
		if ids, ok := byVal[uint64(rw.k)]; ok {
			name = ids[0]
		}
		if rw.e == nil {
			perConst("nt_status.NTStatusToGoErrorMap", "nil-row", name, "row holds a nil error", map[string]any{"status": name})
			continue
		}
		if o, dup := owner[rw.e]; dup {
			oname := fmt.Sprintf("0x%08X", uint32(o))
			if ids, ok := byVal[uint64(o)]; ok {
				oname = ids[0]
			}
			perConst("nt_status.NTStatusToGoErrorMap", "shared-error", name, fmt.Sprintf("statuses %s and %s map to the very same error object (%q)", oname, name, rw.e.Error()), map[string]any{"a": oname, "b": name})
		} else {
			owner[rw.e] = rw.k
		}
	}
}

// ---------------------------------------------------------------------------
// flag words

type bitInfo struct {
	idents   []string
	reserved bool // every identifier of the bit says RESERVED
}

func namedBits(cs []*Const, width int) map[int]*bitInfo {
	out := map[int]*bitInfo{}
	for _, c := range cs {
		if !c.IsInt || bits.OnesCount64(c.Val) != 1 {
			continue // zero ("None") and multi-bit masks name no single bit
		}
		b := bits.TrailingZeros64(c.Val)
		if b >= width {
			continue
		}
		bi := out[b]
		if bi == nil {
			bi = &bitInfo{reserved: true}
			out[b] = bi
		}
		bi.idents = append(bi.idents, c.Ident)
		if !isReservedIdent(c.Ident) {
			bi.reserved = false
		}
	}
	return out
}

func bitLabel(nb map[int]*bitInfo, b int) string {
	if bi := nb[b]; bi != nil {
		return bi.idents[0]
	}
	return fmt.Sprintf("bit%d", b)
}

func tokensOf(raw, raw0, sep string) []string {
	if raw == raw0 {
		return nil
	}
	return strings.Split(raw, sep)
}

func sortedCopy(s []string) []string {
	c := append([]string(nil), s...)
	sort.Strings(c)
	return c
}

// wordSet returns the deterministic boundary words of a width-bit family.
func boundaryWords(width int, nb map[int]*bitInfo) []uint64 {
	m := mask(width)
	var named uint64
	for b := range nb {
		named |= 1 << uint(b)
	}
	ws := []uint64{0, m, named, m &^ named}
	for a := 0; a < width; a++ {
		ws = append(ws, 1<<uint(a), m&^(1<<uint(a)))
		for b := a + 1; b < width; b++ {
			ws = append(ws, 1<<uint(a)|1<<uint(b))
		}
	}
	for a := 0; a+2 < width; a++ { // sliding windows of three and of eight bits
		ws = append(ws, (7<<uint(a))&m, (0xFF<<uint(a))&m)
	}
	ws = append(ws, 0x55555555&m, 0xAAAAAAAA&m, 0x0F0F0F0F&m, 0xF0F0F0F0&m)
	return ws
}

func forEachWord(f flagFamily, nb map[int]*bitInfo, stream string, body func(w uint64, first bool)) {
	if f.Width <= 16 {
		// exhaustive
		n := uint64(1) << uint(f.Width)
		var wg sync.WaitGroup
		shards := uint64(16)
		for s := uint64(0); s < shards; s++ {
			wg.Add(1)
			go func(s uint64) {
				defer wg.Done()
				for w := s; w < n; w += shards {
					body(w, w < 64)
				}
			}(s)
		}
		wg.Wait()
		return
	}
	for i, w := range boundaryWords(f.Width, nb) {
		body(w, i < 8)
	}
	nrand := r.Pick(200_000, 1_000_000)
	var wg sync.WaitGroup
	for s := 0; s < 16; s++ {
		wg.Add(1)
		go func(s int) {
			defer wg.Done()
			rng := r.Rand(fmt.Sprintf("%s-%d", stream, s))
			for i := 0; i < nrand/16; i++ {
				w := rng.Uint64() & mask(f.Width)
				switch i % 4 { // vary the density of set bits
				case 1:
					w &= rng.Uint64()
				case 2:
					w |= rng.Uint64() & mask(f.Width)
				}
				body(w, false)
			}
		}(s)
	}
	wg.Wait()
}

func checkFlagFamily(src *source, f flagFamily) {
	cs := src.claim(f.Dir, f.Type, f.Prefix)
	if len(cs) == 0 {
		r.Inconclusive(fmt.Sprintf("flag family %s: no constants found in %s (type %q prefix %q) — bindings need maintenance", f.ID, f.Dir, f.Type, f.Prefix))
		return
	}
	cp := commonPrefix(idents(cs))
	nb := namedBits(cs, f.Width)
	r.Count("constants:"+f.ID, len(cs))
	declared := map[string]uint64{}
	for _, c := range cs {
		declared[c.Ident] = c.Val
	}

	for _, d := range f.Dec {
		checkDecomposer(f, d, nb, cp, declared)
	}
	if f.ValDec != nil {
		checkValDecomposer(f, nb, declared)
	}
	if f.PredType != nil {
		checkPredicates(f, nb, declared)
	}
}

func checkDecomposer(f flagFamily, d decomposer, nb map[int]*bitInfo, cp string, declared map[string]uint64) {
	var raw0 string
	if !guard(d.Entry, map[string]any{"word": 0}, func() { raw0 = d.F(0) }) {
		return
	}
	r.Eval(1)
	// single bits: the token of bit b names that bit
	tb := make([][]string, f.Width)
	owner := map[string]int{}
	for b := 0; b < f.Width; b++ {
		w := uint64(1) << uint(b)
		var raw string
		cse := map[string]any{"family": f.ID, "word": fmt.Sprintf("0x%X", w)}
		if !guard(d.Entry, cse, func() { raw = d.F(w) }) {
			continue
		}
		r.Eval(1)
		cse["rendering"] = raw
		t := tokensOf(raw, raw0, d.Sep)
		tb[b] = t
		bi := nb[b]
		lbl := bitLabel(nb, b)
		switch {
		case len(t) > 1:
			r.Violation(d.Entry+":single-bit:multi-token:"+lbl, fmt.Sprintf("the one-bit word 0x%X decomposes into %d tokens %q", w, len(t), t), cse)
		case bi == nil && len(t) > 0:
			r.Violation(d.Entry+":single-bit:undeclared-bit-token:"+lbl, fmt.Sprintf("bit %d has no declared constant but yields token %q", b, t), cse)
		case bi != nil && len(t) == 0 && !bi.reserved:
			r.Violation(d.Entry+":single-bit:missing-token:"+lbl, fmt.Sprintf("declared flag %s (0x%X) yields no token (rendering %q)", lbl, w, raw), cse)
		case bi != nil && len(t) == 1 && !faithfulAny(f.Mode, t[0], bi.idents, cp):
			r.Violation(d.Entry+":single-bit:wrong-name:"+lbl, fmt.Sprintf("declared flag %s (0x%X) yields token %q, which does not name it", lbl, w, t[0]), cse)
		}
		for _, tok := range t {
			if o, dup := owner[tok]; dup && o != b {
				r.Violation(d.Entry+":single-bit:duplicate-token:"+lbl, fmt.Sprintf("bits %d (%s) and %d (%s) both yield token %q", o, bitLabel(nb, o), b, lbl, tok), cse)
			} else {
				owner[tok] = b
			}
		}
	}
	// the value the standard gives a flag must be rendered under that flag's name
	for id, sv := range specValues[f.ID] {
		if _, ok := declared[id]; !ok {
			r.Count("spec_rows_without_declared_constant", 1)
			continue
		}
		var raw string
		cse := map[string]any{"family": f.ID, "identifier": id, "standard_value": fmt.Sprintf("0x%X", sv), "declared_value": fmt.Sprintf("0x%X", declared[id])}
		if !guard(d.Entry, cse, func() { raw = d.F(sv) }) {
			continue
		}
		r.Eval(1)
		t := tokensOf(raw, raw0, d.Sep)
		cse["rendering"] = raw
		if len(t) != 1 || !faithful(f.Mode, t[0], id, cp) {
			r.Violation(d.Entry+":spec-value:"+id, fmt.Sprintf("the standard assigns 0x%X to %s, but the word 0x%X renders as %q (library declares %s = 0x%X)", sv, strings.TrimPrefix(id, cp), sv, raw, id, declared[id]), cse)
		}
	}

	// every word: tokens(w) = multiset union of tokens(1<<b) over its set bits, identically on every call
	var mu sync.Mutex
	samples := 0
	forEachWord(f, nb, d.Entry, func(w uint64, first bool) {
		var raws [repeat]string
		cse := map[string]any{"family": f.ID, "word": fmt.Sprintf("0x%X", w)}
		if !guard(d.Entry, cse, func() {
			for i := 0; i < repeat; i++ {
				raws[i] = d.F(w)
			}
		}) {
			return
		}
		r.Eval(repeat)
		for i := 1; i < repeat; i++ {
			if raws[i] != raws[0] {
				cse["call_0"], cse["call_n"], cse["n"] = raws[0], raws[i], i
				r.Violation(d.Entry+":nondeterministic", fmt.Sprintf("word 0x%X rendered as %q and then as %q", w, raws[0], raws[i]), cse)
				break
			}
		}
		got := sortedCopy(tokensOf(raws[0], raw0, d.Sep))
		var want []string
		named, unnamed := 0, 0
		for b := 0; b < f.Width; b++ {
			if w&(1<<uint(b)) != 0 {
				want = append(want, tb[b]...)
				if len(tb[b]) > 0 {
					named++
				} else {
					unnamed++
				}
			}
		}
		sort.Strings(want)
		if named >= 2 || (named >= 1 && unnamed >= 1) {
			r.Nontrivial(fmt.Sprintf("word|%s|%d", d.Entry, w))
		}
		if !equalStrings(got, want) {
			cse["rendering"], cse["tokens"], cse["expected_tokens"] = raws[0], got, want
			extra, missing := diffMultiset(got, want)
			for _, t := range extra {
				r.Violation(d.Entry+":decompose:extra:"+t, fmt.Sprintf("word 0x%X renders %q: token %q is not (or not that often) contributed by any set bit", w, raws[0], t), cse)
			}
			for _, t := range missing {
				r.Violation(d.Entry+":decompose:missing:"+t, fmt.Sprintf("word 0x%X renders %q: token %q of a set bit is absent", w, raws[0], t), cse)
			}
		}
		if named >= 3 {
			mu.Lock()
			if samples < 1 {
				samples++
				r.Sample(map[string]any{"kind": "flag-word", "entry": d.Entry, "word": fmt.Sprintf("0x%X", w), "rendering": strings.ReplaceAll(raws[0], nameSep, ","), "calls": repeat})
			}
			mu.Unlock()
		}
	})
}

func checkValDecomposer(f flagFamily, nb map[int]*bitInfo, declared map[string]uint64) {
	e := f.ValEntry
	vb := make([][]uint64, f.Width)
	for b := 0; b < f.Width; b++ {
		w := uint64(1) << uint(b)
		cse := map[string]any{"family": f.ID, "word": fmt.Sprintf("0x%X", w)}
		var got []uint64
		if !guard(e, cse, func() { got = f.ValDec(w) }) {
			continue
		}
		r.Eval(1)
		cse["result"] = got
		vb[b] = got
		bi := nb[b]
		lbl := bitLabel(nb, b)
		switch {
		case len(got) > 1:
			r.Violation(e+":single-bit:multi-value:"+lbl, fmt.Sprintf("one-bit word 0x%X yields %d flags %v", w, len(got), hexes(got)), cse)
		case len(got) == 1 && got[0] != w:
			r.Violation(e+":single-bit:wrong-value:"+lbl, fmt.Sprintf("one-bit word 0x%X yields flag 0x%X", w, got[0]), cse)
		case bi == nil && len(got) > 0:
			r.Violation(e+":single-bit:undeclared-bit:"+lbl, fmt.Sprintf("bit %d has no declared constant but is returned", b), cse)
		case bi != nil && !bi.reserved && len(got) == 0:
			r.Violation(e+":single-bit:missing:"+lbl, fmt.Sprintf("declared flag %s (0x%X) is not returned", lbl, w), cse)
		}
	}
	for id, sv := range specValues[f.ID] {
		if _, ok := declared[id]; !ok {
			continue
		}
		var got []uint64
		cse := map[string]any{"family": f.ID, "identifier": id, "standard_value": fmt.Sprintf("0x%X", sv), "declared_value": fmt.Sprintf("0x%X", declared[id])}
		if !guard(e, cse, func() { got = f.ValDec(sv) }) {
			continue
		}
		r.Eval(1)
		if len(got) != 1 || got[0] != sv || declared[id] != sv {
			r.Violation(e+":spec-value:"+id, fmt.Sprintf("the standard assigns 0x%X to %s; %s(0x%X) = %v and the library declares %s = 0x%X", sv, id, e, sv, hexes(got), id, declared[id]), cse)
		}
	}
	forEachWord(f, nb, e, func(w uint64, first bool) {
		var res [repeat][]uint64
		cse := map[string]any{"family": f.ID, "word": fmt.Sprintf("0x%X", w)}
		if !guard(e, cse, func() {
			for i := 0; i < repeat; i++ {
				res[i] = f.ValDec(w)
			}
		}) {
			return
		}
		r.Eval(repeat)
		for i := 1; i < repeat; i++ {
			if !equalU64(res[i], res[0]) {
				cse["call_0"], cse["call_n"] = hexes(res[0]), hexes(res[i])
				r.Violation(e+":nondeterministic", fmt.Sprintf("word 0x%X gave %v and then %v", w, hexes(res[0]), hexes(res[i])), cse)
				break
			}
		}
		var want []uint64
		n := 0
		for b := 0; b < f.Width; b++ {
			if w&(1<<uint(b)) != 0 {
				want = append(want, vb[b]...)
				if len(vb[b]) > 0 {
					n++
				}
			}
		}
		if n >= 2 {
			r.Nontrivial(fmt.Sprintf("word|%s|%d", e, w))
		}
		got := append([]uint64(nil), res[0]...)
		sort.Slice(got, func(i, j int) bool { return got[i] < got[j] })
		sort.Slice(want, func(i, j int) bool { return want[i] < want[j] })
		if !equalU64(got, want) {
			cse["result"], cse["expected"] = hexes(res[0]), hexes(want)
			gs, ws := map[uint64]int{}, map[uint64]int{}
			for _, x := range got {
				gs[x]++
			}
			for _, x := range want {
				ws[x]++
			}
			for x, c := range gs {
				if c > ws[x] {
					r.Violation(e+":decompose:extra:"+flagLabel(nb, x), fmt.Sprintf("word 0x%X yields %v: 0x%X is not (or not that often) a set declared flag", w, hexes(res[0]), x), cse)
				}
			}
			for x, c := range ws {
				if c > gs[x] {
					r.Violation(e+":decompose:missing:"+flagLabel(nb, x), fmt.Sprintf("word 0x%X yields %v: set flag 0x%X is absent", w, hexes(res[0]), x), cse)
				}
			}
		}
	})
}

func flagLabel(nb map[int]*bitInfo, x uint64) string {
	if bits.OnesCount64(x) == 1 {
		return bitLabel(nb, bits.TrailingZeros64(x))
	}
	return "multi-bit"
}

func hexes(v []uint64) []string {
	out := make([]string, len(v))
	for i, x := range v {
		out[i] = fmt.Sprintf("0x%X", x)
	}
	return out
}

func equalStrings(a, b []string) bool {
	if len(a) != len(b) {
		return false
	}
	for i := range a {
		if a[i] != b[i] {
			return false
		}
	}
	return true
}

func equalU64(a, b []uint64) bool {
	if len(a) != len(b) {
		return false
	}
	for i := range a {
		if a[i] != b[i] {
			return false
		}
	}
	return true
}

func diffMultiset(got, want []string) (extra, missing []string) {
	g, w := map[string]int{}, map[string]int{}
	for _, x := range got {
		g[x]++
	}
	for _, x := range want {
		w[x]++
	}
	for x, c := range g {
		if c > w[x] {
			extra = append(extra, x)
		}
	}
	for x, c := range w {
		if c > g[x] {
			missing = append(missing, x)
		}
	}
	sort.Strings(extra)
	sort.Strings(missing)
	return
}

// checkPredicates discovers every exported method `func() bool` of the flag type
// by reflection, tabulates it over the whole word set and measures the set of
// bits it is sensitive to.
func checkPredicates(f flagFamily, nb map[int]*bitInfo, declared map[string]uint64) {
	t := f.PredType
	var words []uint64
	exhaustive := f.Width <= 16
	if exhaustive {
		for w := uint64(0); w < 1<<uint(f.Width); w++ {
			words = append(words, w)
		}
	} else {
		words = boundaryWords(f.Width, nb)
		rng := r.Rand("pred-" + f.ID)
		for i := 0; i < r.Pick(20_000, 100_000); i++ {
			words = append(words, rng.Uint64()&mask(f.Width))
		}
	}
	npred := 0
	for mi := 0; mi < t.NumMethod(); mi++ {
		m := t.Method(mi)
		mt := m.Type // func(recv) bool
		if mt.NumIn() != 1 || mt.NumOut() != 1 || mt.Out(0).Kind() != reflect.Bool {
			continue
		}
		npred++
		entry := f.ID + "." + m.Name
		call := func(w uint64) bool {
			v := reflect.New(t).Elem()
			v.SetUint(w)
			return v.Method(mi).Call(nil)[0].Bool()
		}
		// sensitivity mask over the word set
		var sens uint64
		witness := map[int]uint64{}
		table := map[uint64]bool{}
		var full []bool // exhaustive families: the whole truth table
		if exhaustive {
			full = make([]bool, len(words))
		}
		val := func(w uint64) bool {
			if exhaustive {
				return full[w]
			}
			if v, ok := table[w]; ok {
				return v
			}
			v := call(w)
			r.Eval(1)
			table[w] = v
			return v
		}
		ok := guard(entry, map[string]any{"family": f.ID, "predicate": m.Name}, func() {
			if exhaustive {
				for _, w := range words {
					full[w] = call(w)
					// a predicate is a pure function: ask again
					if w%257 == 0 && call(w) != full[w] {
						r.Violation(entry+":nondeterministic", fmt.Sprintf("%s(0x%X) changed between two calls", entry, w), map[string]any{"word": w})
					}
				}
				r.Eval(len(words))
			}
			for _, w := range words {
				for b := 0; b < f.Width; b++ {
					if val(w) != val(w^(1<<uint(b))) {
						if sens&(1<<uint(b)) == 0 {
							witness[b] = w
						}
						sens |= 1 << uint(b)
					}
				}
			}
		})
		if !ok {
			continue
		}
		r.Nontrivial("pred|" + entry)
		cse := map[string]any{"family": f.ID, "predicate": m.Name, "sensitivity_mask": fmt.Sprintf("0x%X", sens), "words": len(words)}
		spec, hasSpec := predSpecs[f.ID][m.Name]
		if hasSpec {
			cse["standard_mask"] = fmt.Sprintf("0x%X", spec.Mask)
		}
		if bits.OnesCount64(sens) != 1 {
			// name the foreign bits so that different slips get different keys
			var lbls []string
			for b := 0; b < f.Width; b++ {
				if sens&(1<<uint(b)) != 0 {
					lbls = append(lbls, bitLabel(nb, b))
				}
			}
			cse["example_words"] = witness
			lbl := strings.Join(lbls, "+")
			switch {
			case len(lbls) == 0:
				lbl = "constant"
			case len(lbls) > 3:
				lbl = "many-bits"
			}
			r.Violation(entry+":sensitivity:"+lbl, fmt.Sprintf("%s depends on %d bits (mask 0x%X: %v); a predicate must depend on exactly its own bit", entry, bits.OnesCount64(sens), sens, lbls), cse)
			continue
		}
		own := bits.TrailingZeros64(sens)
		// function of w & m_p alone (follows from the measured mask on the exhaustive set; asserted anyway)
		for _, w := range words {
			if val(w) != val(w&sens) {
				r.Violation(entry+":not-a-function-of-own-bit", fmt.Sprintf("%s(0x%X) != %s(0x%X)", entry, w, entry, w&sens), cse)
				break
			}
		}
		polarity := val(sens) // value when the bit is set
		if !hasSpec {
			r.Count("predicates_without_standard_row", 1)
			// at least: the bit must be a declared one
			if nb[own] == nil {
				r.Violation(entry+":own-bit:undeclared", fmt.Sprintf("%s tests bit %d, which has no declared constant", entry, own), cse)
			}
			continue
		}
		if dv, ok := declared[spec.Ident]; ok {
			cse["declared_constant"] = fmt.Sprintf("%s=0x%X", spec.Ident, dv)
			if dv != sens {
				r.Violation(entry+":own-bit", fmt.Sprintf("%s tests mask 0x%X (%s) but its own flag %s is declared 0x%X", entry, sens, bitLabel(nb, own), spec.Ident, dv), cse)
			}
		}
		if sens != spec.Mask {
			r.Violation(entry+":spec-bit", fmt.Sprintf("%s tests mask 0x%X; the standard puts that flag at 0x%X", entry, sens, spec.Mask), cse)
		}
		if polarity != spec.WhenSet {
			r.Violation(entry+":polarity", fmt.Sprintf("%s is %v when its bit is set; the standard says %v", entry, polarity, spec.WhenSet), cse)
		}
		if npred == 2 {
			r.Sample(map[string]any{"kind": "predicate", "entry": entry, "sensitivity_mask": fmt.Sprintf("0x%X", sens), "true_when_set": polarity, "words": len(words)})
		}
	}
	r.Count("predicates:"+f.ID, npred)
	for name := range predSpecs[f.ID] {
		if _, ok := t.MethodByName(name); !ok {
			r.Count("standard_rows_without_predicate", 1)
		}
	}
}

// ---------------------------------------------------------------------------

func main() {
	r = mon.Start("C19", "exploration")
	r.Rule("a flag-word case is non-trivial when at least two named bits are set, or a named and an unnamed bit together (fingerprint: entry point + word); " +
		"a constant case when its family declares at least two values (fingerprint: lookup + value); a predicate counts once per predicate. " +
		"Exhaustive sub-domains: all 65 536 words of Flags and Flags2 (String and every predicate), all 256 words of SecurityMode and CustomKeyInformationFlags, " +
		"every distinct declared value of every constant family found in the source. State monitors (state.go): each FromBytes receiver decodes chains of declared values into one object (every ordered pair), Value assigned directly, GetFlags/Name slices held and re-compared, every lookup table asked in three other orders by one caller and by 8 goroutines; each receiver/table counts once")
	r.Assume(
		"constants are enumerated from "+mon.RepoRoot()+" with go/parser (go/types only folds the constant expressions); the binary is compiled from the same tree",
		"names: exact families accept the identifier or the identifier minus (a prefix of) the family prefix; display-text families (key-credential, DomainFunctionalityLevel, MSPKIEnrollmentFlag) accept any text of which the identifier's alphanumerics are a subsequence",
		"ND: what an undeclared value maps to; a constant literally named like the default (…_None -> \"None\") may share it; bits whose only identifiers say RESERVED may yield no token; order of tokens (only that repeated calls agree); zero and multi-bit constants name no bit",
		"non-success NT status = every declared value other than 0",
		"standard tables (MS-CIFS 2.2.3.1, MS-SMB 2.2.3.1, MS-CIFS 2.2.4.52.2, MS-ADTS 2.2.16) are transcribed by hand in spec.go",
	)
	src := loadSource()

	for _, f := range flagFamilies {
		checkFlagFamily(src, f)
	}
	for _, f := range enumFamilies {
		checkEnumFamily(src, f)
	}
	checkNTStatusError(src)
	stateMonitors(src) // state.go: receiver reuse, stale Value, held slices, lookup order and concurrent callers

	// bookkeeping: what the source declares that no binding executes
	bound := map[string]bool{}
	for _, f := range enumFamilies {
		for _, b := range f.Bound {
			bound[f.Dir+":"+b] = true
		}
	}
	for _, f := range flagFamilies {
		for _, b := range f.Bound {
			bound[f.Dir+":"+b] = true
		}
		if f.PredType != nil {
			for i := 0; i < f.PredType.NumMethod(); i++ {
				bound[f.Dir+":"+f.PredType.Name()+"."+f.PredType.Method(i).Name] = true
			}
		}
	}
	var unbound []string
	unclaimed := map[string]int{}
	for _, a := range anchors {
		for _, m := range src.methods[a.Dir] {
			if !m.NoArgs || !(m.Result == "string" || m.Result == "bool" || m.Result == "error") {
				continue
			}
			if m.Name == "Describe" || !ast_IsExported(m.Name) {
				continue
			}
			if !bound[a.Dir+":"+m.Recv+"."+m.Name] {
				unbound = append(unbound, a.Dir+":"+m.Recv+"."+m.Name)
			}
		}
		for _, c := range src.consts[a.Dir] {
			if !c.claimed {
				unclaimed[a.Dir+"/"+c.File]++
			}
		}
	}
	sort.Strings(unbound)
	r.Extra("methods_in_source_without_binding", unbound)
	r.Extra("constants_without_a_name_function", unclaimed)
	r.SetExhaustive(true)
	r.Finish()
}

func ast_IsExported(name string) bool { return name != "" && name[0] >= 'A' && name[0] <= 'Z' }
