// Bindings between the families of constants found in the source and the
// compiled library functions that are executed on their values.
package main

import (
	"encoding/binary"
	"fmt"
	"reflect"
	"strings"

	"github.com/TheManticoreProject/Manticore/network/ldap/ldap_attributes"
	"github.com/TheManticoreProject/Manticore/network/netbios"
	"github.com/TheManticoreProject/Manticore/network/smb/smb_v10/capabilities"
	"github.com/TheManticoreProject/Manticore/network/smb/smb_v10/message/commands/codes"
	"github.com/TheManticoreProject/Manticore/network/smb/smb_v10/message/header/flags"
	"github.com/TheManticoreProject/Manticore/network/smb/smb_v10/message/header/flags2"
	"github.com/TheManticoreProject/Manticore/network/smb/smb_v10/securitymode"
	"github.com/TheManticoreProject/Manticore/network/smb/smb_v10/subcommands"
	"github.com/TheManticoreProject/Manticore/windows/keycredential/key"
	"github.com/TheManticoreProject/Manticore/windows/nt_status"
)

const (
	dirLDAP   = "network/ldap/ldap_attributes"
	dirFlags  = "network/smb/smb_v10/message/header/flags"
	dirFlags2 = "network/smb/smb_v10/message/header/flags2"
	dirCaps   = "network/smb/smb_v10/capabilities"
	dirSecMod = "network/smb/smb_v10/securitymode"
	dirCodes  = "network/smb/smb_v10/message/commands/codes"
	dirSub    = "network/smb/smb_v10/subcommands"
	dirNT     = "windows/nt_status"
	dirKey    = "windows/keycredential/key"
	dirNB     = "network/netbios"
)

// anchors: directory -> files (nil = every non-test file of the directory).
var anchors = []struct {
	Dir   string
	Files []string
}{
	{dirLDAP, nil}, {dirFlags, nil}, {dirFlags2, nil}, {dirCaps, nil}, {dirSecMod, nil},
	{dirCodes, nil}, {dirSub, nil}, {dirNT, nil}, {dirKey, nil}, {dirNB, []string{"session.go"}},
}

type nameMode int

const (
	exactName nameMode = iota // name == identifier or identifier minus family prefix
	freeText                  // display text; identifier (alphanumerics, lower-cased) must be a subsequence
	opaque                    // a description: only non-empty, non-placeholder, injective
)

type lookup struct {
	Entry string // key prefix, e.g. "nt_status.String"
	Mode  nameMode
	F     func(v uint64) string
}

type enumFamily struct {
	ID      string
	Dir     string
	Type    string // claim constants of this named type …
	Prefix  string // … or untyped/basic-typed constants with this identifier prefix
	Width   int
	Lookups []lookup
	Bound   []string // Recv.Method names this family exercises (source-coverage bookkeeping)
}

type decomposer struct {
	Entry string
	Sep   string
	F     func(w uint64) string // canonical raw rendering of the decomposition
}

type flagFamily struct {
	ID       string
	Dir      string
	Type     string
	Prefix   string
	Width    int
	Mode     nameMode
	Dec      []decomposer
	ValDec   func(w uint64) []uint64 // GetFlags-like, optional
	ValEntry string
	PredType reflect.Type // predicates are discovered by reflection: exported methods func() bool
	Bound    []string
}

func le16(v uint64) []byte {
	b := make([]byte, 2)
	binary.LittleEndian.PutUint16(b, uint16(v))
	return b
}
func le32(v uint64) []byte {
	b := make([]byte, 4)
	binary.LittleEndian.PutUint32(b, uint32(v))
	return b
}

var enumFamilies = []enumFamily{
	{ID: "codes.CommandCode", Dir: dirCodes, Type: "CommandCode", Width: 8, Bound: []string{"CommandCode.String"},
		Lookups: []lookup{
			{"codes.CommandCode.String", exactName, func(v uint64) string { return codes.CommandCode(v).String() }},
		}},
	{ID: "subcommands.NtTransact", Dir: dirSub, Type: "NtTransactSubcommand", Width: 16, Bound: []string{"NtTransactSubcommand.String"},
		Lookups: []lookup{
			{"subcommands.NtTransactSubcommand.String", exactName, func(v uint64) string { return subcommands.NtTransactSubcommand(v).String() }},
		}},
	{ID: "subcommands.Transaction2", Dir: dirSub, Type: "Transaction2Subcommand", Width: 16, Bound: []string{"Transaction2Subcommand.String"},
		Lookups: []lookup{
			{"subcommands.Transaction2Subcommand.String", exactName, func(v uint64) string { return subcommands.Transaction2Subcommand(v).String() }},
		}},
	{ID: "subcommands.Transaction", Dir: dirSub, Type: "TransactionSubcommand", Width: 16, Bound: []string{"TransactionSubcommand.String"},
		Lookups: []lookup{
			{"subcommands.TransactionSubcommand.String", exactName, func(v uint64) string { return subcommands.TransactionSubcommand(v).String() }},
		}},
	{ID: "nt_status.NT_STATUS", Dir: dirNT, Type: "NT_STATUS", Width: 32, Bound: []string{"NT_STATUS.String", "NT_STATUS.Error"},
		Lookups: []lookup{
			{"nt_status.String", exactName, func(v uint64) string { return nt_status.NT_STATUS(v).String() }},
		}},
	{ID: "netbios.SESSION_MESSAGE_TYPE", Dir: dirNB, Type: "SESSION_MESSAGE_TYPE", Width: 8, Bound: []string{"SESSION_MESSAGE_TYPE.String"},
		Lookups: []lookup{
			{"netbios.SESSION_MESSAGE_TYPE.String", exactName, func(v uint64) string { return netbios.SESSION_MESSAGE_TYPE(v).String() }},
		}},
	{ID: "key.CustomKeyInformationVolumeType", Dir: dirKey, Prefix: "CustomKeyInformationVolumeType_", Width: 8,
		Bound: []string{"CustomKeyInformationVolumeType.String"},
		Lookups: []lookup{
			{"key.CustomKeyInformationVolumeType.String", freeText, func(v uint64) string {
				var x key.CustomKeyInformationVolumeType
				x.FromBytes(byte(v))
				return x.String()
			}},
		}},
	{ID: "key.KeyCredentialEntryType", Dir: dirKey, Prefix: "KeyCredentialEntryType_", Width: 8, Bound: []string{"KeyCredentialEntryType.String"},
		Lookups: []lookup{
			{"key.KeyCredentialEntryType.String", freeText, func(v uint64) string {
				var x key.KeyCredentialEntryType
				x.FromBytes(byte(v))
				return x.String()
			}},
		}},
	{ID: "key.KeyCredentialVersion", Dir: dirKey, Prefix: "KeyCredentialVersion_", Width: 32, Bound: []string{"KeyCredentialVersion.String"},
		Lookups: []lookup{
			{"key.KeyCredentialVersion.String", freeText, func(v uint64) string {
				var x key.KeyCredentialVersion
				x.FromBytes(le32(v))
				return x.String()
			}},
		}},
	{ID: "key.KeySource", Dir: dirKey, Type: "KeySource", Width: 16, Bound: []string{"KeySource.String"},
		Lookups: []lookup{
			{"key.KeySource.String", freeText, func(v uint64) string { return key.KeySource(v).String() }},
			{"key.KeySource.FromBytes.String", freeText, func(v uint64) string { return key.KeySource(0).FromBytes(le16(v)).String() }},
		}},
	{ID: "key.KeyStrength", Dir: dirKey, Prefix: "KeyStrength_", Width: 32,
		Lookups: []lookup{
			{"key.KeyStrength.FromBytes.Name", freeText, func(v uint64) string {
				var x key.KeyStrength
				x.FromBytes(le32(v))
				return x.Name
			}},
			{"key.KeyStrength.FromBytes.Name.reused", freeText, func(v uint64) string {
				var x key.KeyStrength
				x.FromBytes(le32(v ^ 1)) // the object is decoded into twice; the second decode must win
				x.FromBytes(le32(v))
				return x.Name
			}},
		}},
	{ID: "key.KeyUsage", Dir: dirKey, Prefix: "KeyUsage_", Width: 8, Bound: []string{"KeyUsage.String"},
		Lookups: []lookup{
			{"key.KeyUsage.String", freeText, func(v uint64) string {
				var x key.KeyUsage
				x.FromBytes(byte(v))
				return x.String()
			}},
		}},
	{ID: "ldap.DomainFunctionalityLevel", Dir: dirLDAP, Type: "DomainFunctionalityLevel", Width: 8, Bound: []string{"DomainFunctionalityLevel.String"},
		Lookups: []lookup{
			{"ldap.DomainFunctionalityLevel.String", freeText, func(v uint64) string { return ldap_attributes.DomainFunctionalityLevel(v).String() }},
		}},
	{ID: "ldap.MSPKIEnrollmentFlag", Dir: dirLDAP, Prefix: "MSPKI_ENROLLMENT_FLAG_", Width: 32, Bound: []string{"MSPKIEnrollmentFlag.String"},
		Lookups: []lookup{
			{"ldap.MSPKIEnrollmentFlag.String", freeText, func(v uint64) string { return ldap_attributes.MSPKIEnrollmentFlag(v).String() }},
		}},
	{ID: "ldap.PasswordProperties", Dir: dirLDAP, Type: "PasswordProperties", Width: 32,
		Bound: []string{"PasswordProperties.String", "PasswordProperties.Description"},
		Lookups: []lookup{
			{"ldap.PasswordProperties.String", exactName, func(v uint64) string { return ldap_attributes.PasswordProperties(v).String() }},
			{"ldap.PasswordProperties.Description", opaque, func(v uint64) string { return ldap_attributes.PasswordProperties(v).Description() }},
		}},
	{ID: "ldap.SAMAccountType", Dir: dirLDAP, Prefix: "SAM_", Width: 32, Bound: []string{"SAMAccountType.String"},
		Lookups: []lookup{
			{"ldap.SAMAccountType.String", exactName, func(v uint64) string { return ldap_attributes.SAMAccountType(v).String() }},
		}},
}

const nameSep = "\x1f"

var flagFamilies = []flagFamily{
	{ID: "uac", Dir: dirLDAP, Type: "UserAccountControl", Width: 32, Mode: exactName,
		Bound: []string{"UserAccountControl.String", "UserAccountControl.GetFlags"},
		Dec:   []decomposer{{"uac.String", "|", func(w uint64) string { return ldap_attributes.UserAccountControl(w).String() }}},
		ValDec: func(w uint64) []uint64 {
			fs := ldap_attributes.UserAccountControl(w).GetFlags()
			out := make([]uint64, len(fs))
			for i, f := range fs {
				out[i] = uint64(f)
			}
			return out
		}, ValEntry: "uac.GetFlags"},
	{ID: "flags", Dir: dirFlags, Prefix: "FLAGS_", Width: 16, Mode: exactName, Bound: []string{"Flags.String"},
		Dec:      []decomposer{{"flags.String", "|", func(w uint64) string { return flags.Flags(w).String() }}},
		PredType: reflect.TypeOf(flags.Flags(0))},
	{ID: "flags2", Dir: dirFlags2, Prefix: "FLAGS2_", Width: 16, Mode: exactName, Bound: []string{"Flags2.String"},
		Dec:      []decomposer{{"flags2.String", "|", func(w uint64) string { return flags2.Flags2(w).String() }}},
		PredType: reflect.TypeOf(flags2.Flags2(0))},
	{ID: "capabilities", Dir: dirCaps, Type: "Capabilities", Width: 32, Mode: exactName, Bound: []string{"Capabilities.String"},
		Dec:      []decomposer{{"capabilities.String", "|", func(w uint64) string { return capabilities.Capabilities(w).String() }}},
		PredType: reflect.TypeOf(capabilities.Capabilities(0))},
	{ID: "securitymode", Dir: dirSecMod, Type: "SecurityMode", Width: 8, Mode: exactName,
		PredType: reflect.TypeOf(securitymode.SecurityMode(0))},
	{ID: "ckiflags", Dir: dirKey, Prefix: "CustomKeyInformationFlags_", Width: 8, Mode: freeText,
		Bound: []string{"CustomKeyInformationFlags.FromBytes"},
		Dec: []decomposer{{"ckiflags.FromBytes", nameSep, func(w uint64) string {
			var x key.CustomKeyInformationFlags
			x.FromBytes(byte(w))
			return strings.Join(x.Name, nameSep)
		}}, {"ckiflags.FromBytes.reused", nameSep, func(w uint64) string {
			var x key.CustomKeyInformationFlags
			x.FromBytes(byte(^w)) // the object is decoded into twice; the second decode must win
			x.FromBytes(byte(w))
			return strings.Join(x.Name, nameSep)
		}},
			// the flag byte as it arrives: inside a CUSTOM_KEY_INFORMATION value of every size class
			// (2-byte short form, each optional field present or not, extended form)
			ckiVia("cki.FromBytes.size2", 2, false), ckiVia("cki.FromBytes.size3", 3, false), ckiVia("cki.FromBytes.size4", 4, false),
			ckiVia("cki.FromBytes.size5", 5, false), ckiVia("cki.FromBytes.size9", 9, false), ckiVia("cki.FromBytes.size18", 18, false),
			ckiVia("cki.FromBytes.size19", 19, false), ckiVia("cki.FromBytes.size24", 24, false),
			ckiVia("cki.FromBytes.short-after-long", 2, true), ckiVia("cki.FromBytes.long-after-long", 19, true),
		}},
}

// ckiVia decodes a CUSTOM_KEY_INFORMATION value of the given size whose flag byte is w and
// returns the decomposition found in its Flags field; with reuse the same object decoded a
// 24-byte value with the complementary flag byte first.
func ckiVia(name string, size int, reuse bool) decomposer {
	return decomposer{name, nameSep, func(w uint64) string {
		var c key.CustomKeyInformation
		if reuse {
			long := make([]byte, 24)
			long[0], long[1] = 1, byte(^w)
			c.FromBytes(long, key.KeyCredentialVersion{})
		}
		blob := make([]byte, size)
		blob[0], blob[1] = 1, byte(w)
		if err := c.FromBytes(blob, key.KeyCredentialVersion{}); err != nil {
			return "error: " + err.Error()
		}
		if c.Flags.Value != byte(w) {
			return fmt.Sprintf("Flags.Value=%#x", c.Flags.Value)
		}
		return strings.Join(c.Flags.Name, nameSep)
	}}
}
