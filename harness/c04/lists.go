package main

// Lists of directory entries in FIND / FIND_UNIQUE responses: every length the 16-bit byte count can
// carry, and lists in which one entry cannot be encoded.

import (
	"bytes"
	"fmt"
	"reflect"

	"github.com/TheManticoreProject/Manticore/network/smb/smb_v10/types"

	"verif/mon"
	"verif/smbgen"
)

func mkEntry(i int, name string) types.SMB_DIRECTORY_INFORMATION {
	d := types.NewSMB_DIRECTORY_INFORMATION()
	d.FileAttributes = types.UCHAR(i)
	d.FileSize = types.ULONG(0x01000000 + i)
	d.LastWriteDate = *types.NewSMB_DATEFromDate(1980+i%100, 1+i%12, 1+i%28)
	d.FileName = *types.NewOEM_STRINGFromString(name)
	return *d
}

func entryLists(structs []smbgen.Struct) {
	for _, s := range structs {
		c := s.New()
		v := reflect.ValueOf(c).Elem()
		fv := v.FieldByName("DirectoryInformationData")
		if !fv.IsValid() || fv.Type() != reflect.TypeOf([]types.SMB_DIRECTORY_INFORMATION{}) {
			continue
		}
		setList := func(es []types.SMB_DIRECTORY_INFORMATION) {
			c = s.New()
			v = reflect.ValueOf(c).Elem()
			v.FieldByName("DirectoryInformationData").Set(reflect.ValueOf(es))
			if cv := v.FieldByName("Count"); cv.IsValid() && cv.CanSet() {
				cv.SetUint(uint64(len(es)))
			}
		}
		// 1. list lengths (1236 entries of 53 octets are the most a 16-bit byte count carries)
		for _, n := range []int{0, 1, 2, 255, 256, 257, 1023, 1024, 1025, 1200, 1236} {
			es := make([]types.SMB_DIRECTORY_INFORMATION, n)
			for i := range es {
				es[i] = mkEntry(i, fmt.Sprintf("F%07d.%03d", i, i%1000))
			}
			setList(es)
			cs := map[string]any{"struct": s.Name, "entries": n}
			w, err, pan, pv, st := marshal(c)
			r.Eval(1)
			if pan {
				r.Violation(s.Name+":entry-list:panic", fmt.Sprintf("%v at %s", pv, mon.TopLibFrame(st)), cs)
				continue
			}
			if err != nil {
				r.Violation(s.Name+":entry-list:marshal-error", fmt.Sprintf("a list of %d directory entries (%d octets) cannot be encoded: %v", n, 53*n, err), cs)
				continue
			}
			d := s.New()
			var uerr error
			pan, pv, st = mon.Guard(func() { _, uerr = d.Unmarshal(append([]byte{}, w...)) })
			r.Eval(1)
			switch {
			case pan:
				r.Violation(s.Name+":entry-list:panic", fmt.Sprintf("decoding %d entries: %v at %s", n, pv, mon.TopLibFrame(st)), cs)
			case uerr != nil:
				r.Violation(s.Name+":entry-list:unmarshal-error", fmt.Sprintf("the encoding of %d directory entries is refused: %v", n, uerr), cs)
			default:
				got := reflect.ValueOf(d).Elem().FieldByName("DirectoryInformationData")
				if got.Len() != n {
					r.Violation(s.Name+":entry-list:length", fmt.Sprintf("%d directory entries were encoded, %d came back (Count says %v)", n, got.Len(), reflect.ValueOf(d).Elem().FieldByName("Count")), cs)
				} else if diffs := smbgen.Diff(v, reflect.ValueOf(d).Elem()); len(diffs) > 0 {
					r.Violation(s.Name+":entry-list:field", fmt.Sprintf("%d directory entries: field %s differs after the round trip", n, diffs[0]), cs)
				}
			}
			r.Nontrivial(fmt.Sprintf("entry-list|%s|%d", s.Name, n))
		}
		// 2. one entry that cannot be encoded (a 13-octet name) among good ones: the list is refused,
		// or what is emitted still says how many entries it holds
		for _, n := range []int{1, 2, 3, 8} {
			for bad := 0; bad < n; bad++ {
				es := make([]types.SMB_DIRECTORY_INFORMATION, n)
				for i := range es {
					es[i] = mkEntry(i, fmt.Sprintf("G%03d.TXT", i))
				}
				es[bad] = mkEntry(bad, "THIRTEENCHARS")
				setList(es)
				cs := map[string]any{"struct": s.Name, "entries": n, "unencodable_entry": bad}
				w, err, pan, pv, st := marshal(c)
				r.Eval(1)
				switch {
				case pan:
					r.Violation(s.Name+":unencodable-entry:panic", fmt.Sprintf("%v at %s", pv, mon.TopLibFrame(st)), cs)
				case err != nil:
					r.Count("lists_with_an_unencodable_entry_refused", 1)
				default:
					d := s.New()
					var uerr error
					p2, _, _ := mon.Guard(func() { _, uerr = d.Unmarshal(append([]byte{}, w...)) })
					dv := reflect.ValueOf(d).Elem()
					if p2 || uerr != nil || uint64(dv.FieldByName("DirectoryInformationData").Len()) != dv.FieldByName("Count").Uint() || !bytes.Contains(w, []byte("THIRTEEN")) {
						r.Violation(s.Name+":unencodable-entry:emitted", fmt.Sprintf("entry %d of %d has a 13-octet name: Marshal returned %d octets and no error; they decode to %d entries under Count %v (err %v)", bad, n, len(w), dv.FieldByName("DirectoryInformationData").Len(), dv.FieldByName("Count"), uerr), cs)
					}
				}
			}
		}
	}
}
