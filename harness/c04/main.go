// C04: every SMB1 command structure round-trips all of its fields through the wire,
// and fixed-width fields occupy disjoint, ordered slots exactly as wide as their type.
package main

import (
	"bytes"
	"fmt"
	"os"
	"reflect"
	"sort"
	"strings"

	"github.com/TheManticoreProject/Manticore/network/smb/smb_v10/message/commands/andx"
	"github.com/TheManticoreProject/Manticore/network/smb/smb_v10/message/commands/codes"
	ci "github.com/TheManticoreProject/Manticore/network/smb/smb_v10/message/commands/command_interface"

	"verif/mon"
	"verif/smbgen"
)

var r *mon.Run

var reused = map[string]ci.CommandInterface{}

var held = mon.NewHeldRing(96)

// recomputedCount: "<Struct>.<slice field>" -> count field that Marshal derives itself (measured by the slot probe)
var recomputedCount = map[string]string{}

// derivedCounts is what the slot probe measured on the tree these monitors were built against:
// the counts a caller may leave stale because Marshal writes len(buffer). The run-time
// measurement cannot be the reference here (a library that starts trusting a stale count looks
// "responsive" to the probe), so the reference is this list; losing a member of it is reported.
var derivedCounts = map[string]string{
	"NegotiateResponse.Challenge":     "ChallengeLength",
	"TreeConnectAndxRequest.Password": "PasswordLength",
	"WriteAndCloseRequest.Data":       "CountOfBytesToWrite",
}

type slot struct {
	leaf   smbgen.IntLeaf
	lo, hi int // byte range [lo,hi) in the encoded command
	inData bool
}

func marshal(c interface{ Marshal() ([]byte, error) }) (b []byte, err error, pan bool, pv any, st string) {
	pan, pv, st = mon.Guard(func() { b, err = c.Marshal() })
	return
}

func roundTrip(s smbgen.Struct, rels []smbgen.Relation, mode smbgen.Mode, iter int, maxLen int) {
	rng := r.Rand(fmt.Sprintf("rt|%s|%d|%d", s.Name, mode, iter))
	c := s.New()
	_ = rng
	prepare := func(x ci.CommandInterface) {
		smbgen.Fill(x, rels, r.Rand(fmt.Sprintf("rt|%s|%d|%d", s.Name, mode, iter)), mode, maxLen)
		smbgen.AlignPads(x, rels)
		if maxLen < 0 && iter%200 >= 100 {
			// steer the data block to the top of the 16-bit byte count
			if b0, e0, p0, _, _ := marshal(x); !p0 && e0 == nil {
				if _, d0, ok := smbgen.Blocks(b0); ok && len(d0) >= 32760 {
					target := []int{65535, 65534, 65533, 65500}[(iter/200)%4]
					if smbgen.Grow(x, rels, target-len(d0)) {
						r.Count("big_data_blocks_steered", 1)
					}
				}
			}
		}
	}
	prepare(c)
	cs := func(extra map[string]any) map[string]any {
		m := map[string]any{"struct": s.Name, "mode": smbgen.ModeNames[mode], "iter": iter, "fields": fmt.Sprintf("%+v", reflect.ValueOf(c).Elem().Interface())}
		for k, v := range extra {
			m[k] = v
		}
		return m
	}
	b1, err, pan, pv, st := marshal(c)
	r.Eval(1)
	// the same assignment on a long-lived object that has encoded and decoded other values
	// before must encode to the same bytes (no state carried over between calls)
	if !pan && err == nil {
		ro, ok := reused[s.Name]
		if !ok {
			ro = s.New()
			reused[s.Name] = ro
		}
		prepare(ro)
		br, errR, panR, _, _ := marshal(ro)
		r.Eval(1)
		if panR || errR != nil || !bytes.Equal(br, b1) {
			r.Violation(s.Name+":reuse-stale", fmt.Sprintf("a reused %s object given the same field values encodes differently from a fresh one (%d vs %d bytes, err %v)", s.Name, len(br), len(b1), errR), cs(map[string]any{"fresh_wire": mon.FullHex(b1), "reused_wire": mon.FullHex(br)}))
		}
		if iter%2 == 1 {
			mon.Guard(func() { ro.Unmarshal(b1) })
		}
	}
	if pan {
		r.Violation(s.Name+":marshal-panic:"+mon.PanicClass(pv), fmt.Sprintf("Marshal panicked: %v at %s", pv, mon.TopLibFrame(st)), cs(nil))
		return
	}
	if err != nil && maxLen < 0 && smbgen.ByteTotal(reflect.ValueOf(c).Elem()) > 65000 {
		r.Count("big_assignments_refused_over_64k", 1) // does not fit a 16-bit byte count: refusing is right
		return
	}
	if err != nil {
		r.Violation(s.Name+":marshal-error", "Marshal of an internally consistent assignment failed: "+err.Error(), cs(nil))
		return
	}
	if maxLen < 0 && len(b1) > 32767 {
		r.Count("big_assignments_encoded_over_32k", 1)
	}
	for _, tag := range held.Hold(b1, s.Name) {
		r.Violation(tag+":held-output-changed", "bytes returned by an earlier Marshal of "+tag+" changed after later Marshal calls (output aliases a reused buffer)", cs(nil))
	}
	d := s.New()
	var uerr error
	pan, pv, st = mon.Guard(func() { _, uerr = d.Unmarshal(append([]byte{}, b1...)) })
	r.Eval(1)
	if pan {
		r.Violation(s.Name+":unmarshal-panic:"+mon.PanicClass(pv), fmt.Sprintf("Unmarshal of own encoding panicked: %v at %s", pv, mon.TopLibFrame(st)), cs(map[string]any{"wire": mon.FullHex(b1)}))
		return
	}
	if uerr != nil {
		r.Violation(s.Name+":unmarshal-error", "Unmarshal of own encoding failed: "+uerr.Error(), cs(map[string]any{"wire": mon.FullHex(b1)}))
		return
	}
	diffs := smbgen.Diff(reflect.ValueOf(c).Elem(), reflect.ValueOf(d).Elem())
	for _, p := range diffs {
		r.Violation(s.Name+":field:"+p, fmt.Sprintf("field %s differs after Unmarshal(Marshal(S)): sent %v", p, describe(reflect.ValueOf(c).Elem(), p)), cs(map[string]any{"wire": mon.FullHex(b1), "decoded": fmt.Sprintf("%+v", reflect.ValueOf(d).Elem().Interface())}))
	}
	if len(diffs) == 0 {
		// the decoded structure is what a caller keeps: later decodes of other commands (into
		// other structures) must not change it. Held as a clone-independent pair (sent, decoded).
		kd := s.New()
		if _, e := kd.Unmarshal(append([]byte{}, b1...)); e == nil {
			heldDecoded.keep(s.Name, c, kd)
		}
	}
	if len(diffs) == 0 && iter%4 == 0 {
		decodeEditEncode(s, rels, d, iter)
	}
	b2, err, pan, pv, st := marshal(d)
	r.Eval(1)
	switch {
	case pan:
		r.Violation(s.Name+":remarshal-panic", fmt.Sprintf("re-Marshal panicked: %v at %s", pv, mon.TopLibFrame(st)), cs(nil))
	case err != nil:
		r.Violation(s.Name+":remarshal-error", "Marshal(Unmarshal(Marshal(S))) failed: "+err.Error(), cs(nil))
	case !bytes.Equal(b1, b2) && len(diffs) == 0:
		r.Violation(s.Name+":reencode", fmt.Sprintf("re-encoding differs: %d vs %d bytes", len(b1), len(b2)), cs(map[string]any{"wire": mon.FullHex(b1), "wire2": mon.FullHex(b2)}))
	}
	if len(b1) > 3 {
		r.Nontrivial(fmt.Sprintf("%s|%s|%d|%x", s.Name, smbgen.ModeNames[mode], iter, b1[:min(len(b1), 24)]))
	}
	if iter == 0 && mode == smbgen.ModeDistinct && (s.Name[0] == 'R' || s.Name[0] == 'N') {
		r.Sample(map[string]any{"struct": s.Name, "mode": "distinct", "wire": mon.Hex(b1)})
	}
}

// decodedRing keeps the last decoded structures beside the assignment they were decoded from;
// each is compared again when it leaves the ring and at the end of the run.
type decodedPair struct {
	name      string
	sent, got ci.CommandInterface
}

type decodedRing struct{ buf []decodedPair }

var heldDecoded decodedRing

func (h *decodedRing) verify(p decodedPair, when string) {
	r.Eval(1)
	if diffs := smbgen.Diff(reflect.ValueOf(p.sent).Elem(), reflect.ValueOf(p.got).Elem()); len(diffs) > 0 {
		r.Violation(p.name+":held-decoded-changed", fmt.Sprintf("a %s decoded earlier (equal to what was sent at the time) differs in %v %s", p.name, diffs, when), map[string]any{"struct": p.name, "fields": fmt.Sprintf("%+v", reflect.ValueOf(p.sent).Elem().Interface())})
	}
}

func (h *decodedRing) keep(name string, sent, got ci.CommandInterface) {
	if len(h.buf) >= 24 {
		h.verify(h.buf[0], "after 24 later decodes")
		h.buf = h.buf[1:]
	}
	h.buf = append(h.buf, decodedPair{name, sent, got})
}

func (h *decodedRing) final() {
	for _, p := range h.buf {
		h.verify(p, "at the end of the run")
	}
}

// decodeEditEncode: a decoded structure whose byte-slice fields may still point into the
// receive buffer is edited in one field (a buffer of another length) and encoded; a fresh
// structure holding the same logical field values must encode to the same bytes.
func decodeEditEncode(s smbgen.Struct, rels []smbgen.Relation, d ci.CommandInterface, iter int) {
	dv := reflect.ValueOf(d).Elem()
	var byteFields []int
	for i := 0; i < s.Type.NumField(); i++ {
		sf := s.Type.Field(i)
		if sf.IsExported() && sf.Type.Kind() == reflect.Slice && sf.Type.Elem().Kind() == reflect.Uint8 {
			byteFields = append(byteFields, i)
		}
	}
	if len(byteFields) == 0 {
		return
	}
	pads := map[string]bool{}
	for _, pf := range smbgen.PadFields(rels) {
		pads[pf] = true
	}
	for _, fi := range byteFields {
		name := s.Type.Field(fi).Name
		if pads[name] {
			continue
		}
		// work on a private re-decode so that edits do not accumulate
		wire, err, pan, _, _ := marshal(d)
		if pan || err != nil {
			return
		}
		e := s.New()
		buf := append(make([]byte, 0, len(wire)+64), wire...) // receive buffer with spare capacity
		var uerr error
		if p, _, _ := mon.Guard(func() { _, uerr = e.Unmarshal(buf) }); p || uerr != nil {
			return
		}
		ev := reflect.ValueOf(e).Elem()
		old := ev.Field(fi).Len()
		n := old + 3 + iter%5
		if iter%2 == 1 && old > 2 {
			n = old / 2
		}
		nb := make([]byte, n)
		for k := range nb {
			nb[k] = byte(0xC0 + k%32)
		}
		fresh := s.New()
		smbgen.CopyFields(fresh, e)
		for _, x := range []ci.CommandInterface{e, fresh} {
			xv := reflect.ValueOf(x).Elem()
			xv.Field(fi).SetBytes(append([]byte{}, nb...))
			smbgen.ApplyRelations(xv, rels)
			smbgen.AlignPads(x, rels)
		}
		w1, err1, pan1, _, _ := marshal(e)
		w2, err2, pan2, _, _ := marshal(fresh)
		r.Eval(2)
		// a count that Marshal itself derives from the buffer must follow the edit even when the
		// caller left the old count in the structure: edit only the buffer of a re-decoded object
		// and require that the encoding decodes to the new buffer
		if rc := derivedCounts[s.Name+"."+name]; rc != "" && !pan1 && err1 == nil {
			g := s.New()
			buf2 := append(make([]byte, 0, len(wire)+64), wire...)
			var ge error
			if p, _, _ := mon.Guard(func() { _, ge = g.Unmarshal(buf2) }); !p && ge == nil {
				gv := reflect.ValueOf(g).Elem()
				gv.Field(fi).SetBytes(append([]byte{}, nb...)) // count field deliberately left as decoded
				w3, err3, pan3, _, _ := marshal(g)
				h := s.New()
				var he error
				var hp bool
				if !pan3 && err3 == nil {
					hp, _, _ = mon.Guard(func() { _, he = h.Unmarshal(append([]byte{}, w3...)) })
				}
				r.Eval(2)
				if pan3 || err3 != nil || hp || he != nil || !bytes.Equal(reflect.ValueOf(h).Elem().Field(fi).Bytes(), nb) {
					r.Violation(s.Name+":stale-count:"+rc, fmt.Sprintf("%s is derived by Marshal from %s; after decoding and replacing %s by a %d-byte buffer (count left as decoded) the encoding does not decode to the new buffer (err %v / %v)", rc, name, name, n, err3, he),
						map[string]any{"struct": s.Name, "field": name, "count": rc, "wire": mon.FullHex(w3)})
				}
			}
		}
		if pan1 != pan2 || (err1 == nil) != (err2 == nil) || !bytes.Equal(w1, w2) {
			r.Violation(s.Name+":decode-edit-encode:"+name, fmt.Sprintf("after decoding, replacing %s by a %d-byte buffer and encoding, the bytes differ from those of a fresh structure with the same field values (%d vs %d bytes; err %v / %v)", name, n, len(w1), len(w2), err1, err2),
				map[string]any{"struct": s.Name, "field": name, "decoded_then_edited_wire": mon.FullHex(w1), "fresh_wire": mon.FullHex(w2), "original_wire": mon.FullHex(wire)})
		}
		_ = dv
	}
}

func describe(v reflect.Value, path string) string {
	top := path
	if i := strings.IndexAny(path, ".[#"); i >= 0 {
		top = path[:i]
	}
	f := v.FieldByName(top)
	if !f.IsValid() {
		return "?"
	}
	s := fmt.Sprintf("%+v", f.Interface())
	if len(s) > 120 {
		s = s[:120] + "…"
	}
	return s
}

// slots: for a consistent base assignment, flip every byte of one integer leaf
// and observe which wire bytes change.
func slotProbe(s smbgen.Struct, rels []smbgen.Relation) {
	rng := r.Rand("slot|" + s.Name)
	c := s.New()
	smbgen.Fill(c, rels, rng, smbgen.ModeDistinct, 6)
	base, err, pan, _, _ := marshal(c)
	if pan || err != nil {
		return // reported by roundTrip
	}
	params, _, ok := smbgen.Blocks(base)
	if !ok {
		return
	}
	dataStart := 1 + len(params) + 2
	counts := smbgen.CountFields(rels)
	leaves := smbgen.IntLeaves(s.Type)
	var slots []slot
	for _, lf := range leaves {
		v := lf.Leaf(reflect.ValueOf(c).Elem())
		orig := smbgen.GetBits(v)
		smbgen.SetBits(v, ^orig)
		b, err, pan, _, _ := marshal(c)
		smbgen.SetBits(v, orig)
		r.Eval(1)
		r.Count("slot_probes", 1)
		if pan || err != nil {
			continue
		}
		key := s.Name + ":slot:" + lf.Path
		cs := map[string]any{"struct": s.Name, "field": lf.Path, "base_wire": mon.FullHex(base), "probe_wire": mon.FullHex(b)}
		if len(b) != len(base) {
			if !counts[lf.Top] {
				r.Violation(key+":length-changed", fmt.Sprintf("changing fixed-width field %s changed the encoded length %d -> %d", lf.Path, len(base), len(b)), cs)
			}
			continue
		}
		var pos []int
		for i := range b {
			if b[i] != base[i] {
				pos = append(pos, i)
			}
		}
		if len(pos) == 0 {
			if !counts[lf.Top] {
				r.Violation(key+":not-on-wire", fmt.Sprintf("changing field %s (width %d) changes no wire byte", lf.Path, lf.Width), cs)
			}
			continue
		}
		lo, hi := pos[0], pos[len(pos)-1]+1
		if hi-lo != len(pos) || len(pos) != lf.Width {
			r.Violation(key+":width", fmt.Sprintf("field %s (width %d): complementing it changed wire bytes %v", lf.Path, lf.Width, pos), cs)
			continue
		}
		slots = append(slots, slot{leaf: lf, lo: lo, hi: hi, inData: lo >= dataStart})
		r.Nontrivial("slot|" + s.Name + "|" + lf.Path)
	}
	// byte coverage of the parameter block: every byte after the AndX words must change when
	// some field changes, otherwise it belongs to no field's slot (a field wider on the wire
	// than its type, or stray bytes between fields)
	covered := map[int]bool{}
	v := reflect.ValueOf(c).Elem()
	for i := 0; i < s.Type.NumField(); i++ {
		sf := s.Type.Field(i)
		if !sf.IsExported() || (sf.Anonymous && sf.Name == "Command") {
			continue
		}
		saved := reflect.New(sf.Type).Elem()
		saved.Set(v.Field(i))
		if sf.Type.Kind() == reflect.Slice { // deep copy before perturbing
			cp := reflect.MakeSlice(sf.Type, v.Field(i).Len(), v.Field(i).Len())
			reflect.Copy(cp, v.Field(i))
			saved.Set(cp)
		}
		perturb(v.Field(i))
		b, err, pan, _, _ := marshal(c)
		v.Field(i).Set(saved)
		if pan || err != nil || len(b) != len(base) {
			continue
		}
		for k := range b {
			if b[k] != base[k] {
				covered[k] = true
			}
		}
	}
	first := 1
	if c.IsAndX() {
		first = 5
	}
	var dead []int
	for k := first; k < 1+len(params); k++ {
		if !covered[k] {
			dead = append(dead, k)
		}
	}
	r.Eval(1)
	// bytes legitimately insensitive: count fields that Marshal recomputes from the buffer they
	// describe, and the single pad byte that completes an odd-length parameter stream to a word
	allowed := 0
	for _, lf := range leaves {
		if counts[lf.Top] {
			responsive := false
			for _, sl := range slots {
				if sl.leaf.Path == lf.Path {
					responsive = true
				}
			}
			if !responsive {
				allowed += lf.Width
				for _, rl := range rels {
					if rl.Count == lf.Top {
						recomputedCount[s.Name+"."+rl.Slice] = lf.Top
					}
				}
			}
		}
	}
	if (len(params)-(first-1)-len(dead)+allowed)%2 == 1 {
		allowed++
	}
	if len(dead) > allowed {
		r.Violation(s.Name+":param-bytes-in-no-slot", fmt.Sprintf("parameter-block bytes at wire offsets %v change with no field: they lie in no field's slot (a field wider on the wire than its type, or stray bytes)", dead), map[string]any{"struct": s.Name, "base_wire": mon.FullHex(base)})
	}
	// disjointness and declared order within each block
	for i := 0; i < len(slots); i++ {
		for j := i + 1; j < len(slots); j++ {
			a, b := slots[i], slots[j]
			if a.lo < b.hi && b.lo < a.hi {
				r.Violation(s.Name+":slot:"+a.leaf.Path+":overlap", fmt.Sprintf("slots of %s [%d,%d) and %s [%d,%d) overlap", a.leaf.Path, a.lo, a.hi, b.leaf.Path, b.lo, b.hi), map[string]any{"struct": s.Name})
			} else if a.inData == b.inData && a.lo > b.lo {
				r.Violation(s.Name+":slot:"+b.leaf.Path+":order", fmt.Sprintf("%s is declared before %s but encoded after it ([%d,%d) vs [%d,%d))", a.leaf.Path, b.leaf.Path, a.lo, a.hi, b.lo, b.hi), map[string]any{"struct": s.Name})
			}
		}
	}
	if s.Name == "ReadAndxRequest" || s.Name == "NtCreateAndxRequest" {
		var desc []string
		for _, sl := range slots {
			desc = append(desc, fmt.Sprintf("%s@[%d,%d)", sl.leaf.Path, sl.lo, sl.hi))
		}
		r.Sample(map[string]any{"struct": s.Name, "slots": desc})
	}
}

// stringFormats: a string field whose buffer format the command leaves to the caller (Marshal
// preserves at least two different formats) must carry every one of the five MS-CIFS formats
// through the wire, format included — or refuse it with an error; never silently another format.
func stringFormats(s smbgen.Struct, rels []smbgen.Relation) {
	for fi := 0; fi < s.Type.NumField(); fi++ {
		if s.Type.Field(fi).Type.Name() != "SMB_STRING" {
			continue
		}
		name := s.Type.Field(fi).Name
		type res struct {
			kept, err bool
			back      uint64
			backBuf   []byte
		}
		out := map[uint64]res{}
		for f := uint64(1); f <= 5; f++ {
			c := s.New()
			smbgen.Fill(c, rels, r.Rand("strfmt|"+s.Name), smbgen.ModeDistinct, 6)
			fv := reflect.ValueOf(c).Elem().Field(fi)
			fv.FieldByName("BufferFormat").SetUint(f)
			buf := []byte("fmt-" + name)
			fv.FieldByName("Buffer").SetBytes(buf)
			fv.FieldByName("Length").SetUint(uint64(len(buf)))
			smbgen.AlignPads(c, rels)
			w, err, pan, _, _ := marshal(c)
			r.Eval(1)
			if pan || err != nil {
				out[f] = res{err: true}
				continue
			}
			kept := fv.FieldByName("BufferFormat").Uint() == f
			d := s.New()
			var uerr error
			p, _, _ := mon.Guard(func() { _, uerr = d.Unmarshal(append([]byte{}, w...)) })
			if p || uerr != nil {
				out[f] = res{kept: kept, err: true}
				continue
			}
			dv := reflect.ValueOf(d).Elem().Field(fi)
			out[f] = res{kept: kept, back: dv.FieldByName("BufferFormat").Uint(), backBuf: dv.FieldByName("Buffer").Bytes()}
		}
		nKept := 0
		for _, x := range out {
			if x.kept && !x.err {
				nKept++
			}
		}
		if nKept < 2 {
			continue // the command forces its own format: judged by the ordinary round trip
		}
		for f := uint64(1); f <= 5; f++ {
			x := out[f]
			if x.err {
				continue
			}
			if !x.kept || x.back != f || string(x.backBuf) != "fmt-"+name {
				r.Violation(s.Name+":string-format:"+name, fmt.Sprintf("%s leaves the buffer format of %s to the caller, but format %#02x comes back as %#02x (kept by Marshal: %v, buffer %q)", s.Name, name, f, x.back, x.kept, x.backBuf), map[string]any{"struct": s.Name, "field": name, "format": f})
			}
			r.Nontrivial(fmt.Sprintf("strfmt|%s|%s|%d", s.Name, name, f))
		}
	}
}

// andxIsolation: what one AndX command's owner does to the AndX block it got from the library
// must not reach another command (no shared default block).
func andxIsolation(structs []smbgen.Struct) {
	var andxStructs []smbgen.Struct
	for _, s := range structs {
		if s.New().IsAndX() {
			andxStructs = append(andxStructs, s)
		}
	}
	for i, a := range andxStructs {
		ca := a.New()
		smbgen.Fill(ca, smbgen.Relations(a.Name), r.Rand("andxiso|"+a.Name), smbgen.ModeDistinct, 4)
		if _, err, pan, _, _ := marshal(ca); pan || err != nil || ca.GetAndX() == nil {
			continue
		}
		// the owner now edits the block the library created for it, and also decodes into the object
		ca.GetAndX().AndXOffset = 0x1234
		ca.GetAndX().AndXReserved = 0x77
		b := andxStructs[(i+1)%len(andxStructs)]
		cb := b.New()
		smbgen.Fill(cb, smbgen.Relations(b.Name), r.Rand("andxiso2|"+b.Name), smbgen.ModeDistinct, 4)
		w, err, pan, _, _ := marshal(cb)
		r.Eval(1)
		if pan || err != nil {
			continue
		}
		params, _, ok := smbgen.Blocks(w)
		if ok && len(params) >= 4 && !bytes.Equal(params[:4], []byte{0xFF, 0, 0, 0}) {
			r.Violation("andx:shared-default-block", fmt.Sprintf("after the owner of a %s edited the AndX block the library gave it, a fresh %s encodes its AndX words as % x instead of ff 00 00 00", a.Name, b.Name, params[:4]), map[string]any{"first": a.Name, "second": b.Name, "wire": mon.FullHex(w)})
		}
		r.Nontrivial("andxiso|" + a.Name + "|" + b.Name)
	}
}

// andxRoundTrip: the AndX block is part of every AndX command (its first two parameter words):
// whatever block the command carries when it is encoded must be the block of the structure
// decoded from those bytes — also {0xFF, r, offset != 0}, the end of a chain whose offset
// field still holds a value.
func andxRoundTrip(structs []smbgen.Struct) {
	blocks := [][3]uint16{{0xFF, 0, 0}, {0xFF, 0x5A, 0x0102}, {0xFF, 0, 0xFFFF}, {0xA2, 0, 0x0040}, {0x2E, 0xFF, 0x8001}, {0x00, 0x01, 0x0001}, {0x75, 0x80, 0x7FFF}}
	for _, s := range structs {
		if !s.New().IsAndX() {
			continue
		}
		rels := smbgen.Relations(s.Name)
		for bi, b := range blocks {
			c := s.New()
			smbgen.Fill(c, rels, r.Rand(fmt.Sprintf("andxrt|%s|%d", s.Name, bi)), smbgen.ModeRandom, 12)
			x := andx.NewAndX()
			x.AndXCommand, x.AndXReserved, x.AndXOffset = codes.CommandCode(b[0]), uint8(b[1]), b[2]
			c.SetAndX(x)
			smbgen.AlignPads(c, rels)
			w, err, pan, _, _ := marshal(c)
			r.Eval(1)
			if pan || err != nil {
				continue // judged by roundTrip
			}
			cs := map[string]any{"struct": s.Name, "andx_command": b[0], "andx_reserved": b[1], "andx_offset": b[2], "wire": mon.FullHex(w)}
			d := s.New()
			var uerr error
			pan, _, _ = mon.Guard(func() { _, uerr = d.Unmarshal(append([]byte{}, w...)) })
			r.Eval(1)
			if pan || uerr != nil {
				continue // judged by roundTrip
			}
			g := d.GetAndX()
			switch {
			case g == nil:
				r.Violation(s.Name+":field:AndX", fmt.Sprintf("the decoded %s has no AndX block; the encoded one was {%#02x %#02x %#04x}", s.Name, b[0], b[1], b[2]), cs)
			case uint16(g.AndXCommand) != b[0] || uint16(g.AndXReserved) != b[1] || g.AndXOffset != b[2]:
				r.Violation(s.Name+":field:AndX", fmt.Sprintf("AndX block {%#02x %#02x %#04x} decodes as {%#02x %#02x %#04x}", b[0], b[1], b[2], uint8(g.AndXCommand), g.AndXReserved, g.AndXOffset), cs)
			}
			w2, err2, pan2, _, _ := marshal(d)
			r.Eval(1)
			if !pan2 && err2 == nil && !bytes.Equal(w, w2) && g != nil && uint16(g.AndXCommand) == b[0] && uint16(g.AndXReserved) == b[1] && g.AndXOffset == b[2] {
				r.Violation(s.Name+":reencode", fmt.Sprintf("re-encoding a decoded %s with AndX block {%#02x %#02x %#04x} differs", s.Name, b[0], b[1], b[2]), cs)
			}
			r.Nontrivial(fmt.Sprintf("andxrt|%s|%d", s.Name, bi))
		}
	}
}

// perturb complements every integer leaf below v (lengths of slices and strings unchanged).
func perturb(v reflect.Value) {
	switch v.Kind() {
	case reflect.Uint8, reflect.Uint16, reflect.Uint32, reflect.Uint64:
		v.SetUint(^v.Uint() & (1<<uint(v.Type().Bits()) - 1 | 1<<63>>uint(64-v.Type().Bits())))
	case reflect.Int8, reflect.Int16, reflect.Int32, reflect.Int64:
		v.SetInt(^v.Int())
	case reflect.Struct:
		if v.Type().Name() == "SMB_DATE" {
			v.FieldByName("Year").SetUint(1980 + (v.FieldByName("Year").Uint() - 1980) ^ 0x7F)
			v.FieldByName("Month").SetUint(v.FieldByName("Month").Uint() ^ 0xF)
			v.FieldByName("Day").SetUint(v.FieldByName("Day").Uint() ^ 0x1F)
			return
		}
		for i := 0; i < v.NumField(); i++ {
			if v.Type().Field(i).IsExported() {
				perturb(v.Field(i))
			}
		}
	case reflect.Slice, reflect.Array:
		for i := 0; i < v.Len(); i++ {
			perturb(v.Index(i))
		}
	}
}

func main() {
	r = mon.Start("C04", "exploration")
	structs, _, _ := smbgen.Enumerate()
	r.Extra("structures", len(structs))
	r.Rule("Every structure returned by CreateRequestCommand/CreateResponseCommand over all 256 codes is filled by reflection (5 deterministic value classes: byte-distinct, all-ones, sign-bit, one; then seeded random), made internally consistent from the length/count relations its own Unmarshal imposes, encoded, decoded into a fresh structure, compared leaf by leaf and re-encoded; each fixed-width integer leaf is complemented to find its wire slot (width, disjointness, declared order). Non-trivial/distinct: distinct (structure, value class, iteration, wire prefix) with a non-empty encoding, plus distinct (structure, field) slots located.")
	r.Assume("internal consistency = the relations extracted from each command's own Unmarshal source (slice length <-> count field, fixed pads, rest-of-block)", "strings are NUL-free in every buffer format; SMB_STRING compared on Buffer only", "AndX chaining of a second command is not exercised")
	if len(structs) < 50 {
		r.Inconclusive(fmt.Sprintf("only %d structures reachable from the factories", len(structs)))
	}
	only := os.Getenv("VERIF_ONLY")
	unconstrained := map[string][]string{}
	nRandom := r.Pick(400, 15000)
	var names []string
	for _, s := range structs {
		if only != "" && s.Name != only {
			continue
		}
		names = append(names, s.Name)
		rels := smbgen.Relations(s.Name)
		// which slices have no relation
		probe := s.New()
		if u := smbgen.Fill(probe, rels, r.Rand("probe|"+s.Name), smbgen.ModeOne, 4); len(u) > 0 {
			unconstrained[s.Name] = u
		}
		slotProbe(s, rels)
		stringFormats(s, rels)
		for m := smbgen.ModeDistinct; m <= smbgen.ModeOne; m++ {
			roundTrip(s, rels, m, 0, 6)
		}
		for i := 0; i < nRandom; i++ {
			maxLen := 40
			if i%10 == 9 {
				maxLen = 600
			}
			if i%50 == 49 {
				maxLen = 9000 // buffers past 4 KiB and 8 KiB size classes
			}
			if i%100 == 73 {
				maxLen = -1 // one buffer around or beyond 2^15 bytes, the rest small
			}
			roundTrip(s, rels, smbgen.ModeRandom, i, maxLen)
		}
	}
	if only == "" {
		andxIsolation(structs)
		andxRoundTrip(structs)
		entryLists(structs)
	}
	heldDecoded.final()
	sort.Strings(names)
	r.Extra("structure_names", names)
	r.Extra("slices_without_relation", unconstrained)
	r.Extra("counts_derived_by_marshal", recomputedCount)
	r.Finish()
}
