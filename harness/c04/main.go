// C04: every SMB1 command structure round-trips all of its fields through the wire,
// and fixed-width fields occupy disjoint, ordered slots exactly as wide as their type.
package main

import (
	"bytes"
	"fmt"
	"os"
	"reflect"
	"sort"
	"strings"

	"verif/mon"
	"verif/smbgen"
)

var r *mon.Run

type slot struct {
	leaf   smbgen.IntLeaf
	lo, hi int // byte range [lo,hi) in the encoded command
	inData bool
}

func marshal(c interface{ Marshal() ([]byte, error) }) (b []byte, err error, pan bool, pv any, st string) {
	pan, pv, st = mon.Guard(func() { b, err = c.Marshal() })
	return
}

func roundTrip(s smbgen.Struct, rels []smbgen.Relation, mode smbgen.Mode, iter int, maxLen int) {
	rng := r.Rand(fmt.Sprintf("rt|%s|%d|%d", s.Name, mode, iter))
	c := s.New()
	smbgen.Fill(c, rels, rng, mode, maxLen)
	// alignment pads are 0 or 1 byte depending on the position of what follows: take the
	// length (0 first, then 1) under which the structure decodes its own encoding
	if pads := smbgen.PadFields(rels); len(pads) > 0 {
		for n := 0; n < 2; n++ {
			for _, pf := range pads {
				reflect.ValueOf(c).Elem().FieldByName(pf).SetBytes(make([]byte, n))
			}
			b, err, pan, _, _ := marshal(c)
			if pan || err != nil {
				continue
			}
			d := s.New()
			var uerr error
			pan, _, _ = mon.Guard(func() { _, uerr = d.Unmarshal(b) })
			if !pan && uerr == nil && reflect.ValueOf(d).Elem().FieldByName(pads[0]).Len() == n {
				break
			}
		}
	}
	cs := func(extra map[string]any) map[string]any {
		m := map[string]any{"struct": s.Name, "mode": smbgen.ModeNames[mode], "iter": iter, "fields": fmt.Sprintf("%+v", reflect.ValueOf(c).Elem().Interface())}
		for k, v := range extra {
			m[k] = v
		}
		return m
	}
	b1, err, pan, pv, st := marshal(c)
	r.Eval(1)
	if pan {
		r.Violation(s.Name+":marshal-panic:"+mon.PanicClass(pv), fmt.Sprintf("Marshal panicked: %v at %s", pv, mon.TopLibFrame(st)), cs(nil))
		return
	}
	if err != nil {
		r.Violation(s.Name+":marshal-error", "Marshal of an internally consistent assignment failed: "+err.Error(), cs(nil))
		return
	}
	d := s.New()
	var uerr error
	pan, pv, st = mon.Guard(func() { _, uerr = d.Unmarshal(b1) })
	r.Eval(1)
	if pan {
		r.Violation(s.Name+":unmarshal-panic:"+mon.PanicClass(pv), fmt.Sprintf("Unmarshal of own encoding panicked: %v at %s", pv, mon.TopLibFrame(st)), cs(map[string]any{"wire": mon.FullHex(b1)}))
		return
	}
	if uerr != nil {
		r.Violation(s.Name+":unmarshal-error", "Unmarshal of own encoding failed: "+uerr.Error(), cs(map[string]any{"wire": mon.FullHex(b1)}))
		return
	}
	diffs := smbgen.Diff(reflect.ValueOf(c).Elem(), reflect.ValueOf(d).Elem())
	for _, p := range diffs {
		r.Violation(s.Name+":field:"+p, fmt.Sprintf("field %s differs after Unmarshal(Marshal(S)): sent %v", p, describe(reflect.ValueOf(c).Elem(), p)), cs(map[string]any{"wire": mon.FullHex(b1), "decoded": fmt.Sprintf("%+v", reflect.ValueOf(d).Elem().Interface())}))
	}
	b2, err, pan, pv, st := marshal(d)
	r.Eval(1)
	switch {
	case pan:
		r.Violation(s.Name+":remarshal-panic", fmt.Sprintf("re-Marshal panicked: %v at %s", pv, mon.TopLibFrame(st)), cs(nil))
	case err != nil:
		r.Violation(s.Name+":remarshal-error", "Marshal(Unmarshal(Marshal(S))) failed: "+err.Error(), cs(nil))
	case !bytes.Equal(b1, b2) && len(diffs) == 0:
		r.Violation(s.Name+":reencode", fmt.Sprintf("re-encoding differs: %d vs %d bytes", len(b1), len(b2)), cs(map[string]any{"wire": mon.FullHex(b1), "wire2": mon.FullHex(b2)}))
	}
	if len(b1) > 3 {
		r.Nontrivial(fmt.Sprintf("%s|%s|%d|%x", s.Name, smbgen.ModeNames[mode], iter, b1[:min(len(b1), 24)]))
	}
	if iter == 0 && mode == smbgen.ModeDistinct && (s.Name[0] == 'R' || s.Name[0] == 'N') {
		r.Sample(map[string]any{"struct": s.Name, "mode": "distinct", "wire": mon.Hex(b1)})
	}
}

func describe(v reflect.Value, path string) string {
	top := path
	if i := strings.IndexAny(path, ".[#"); i >= 0 {
		top = path[:i]
	}
	f := v.FieldByName(top)
	if !f.IsValid() {
		return "?"
	}
	s := fmt.Sprintf("%+v", f.Interface())
	if len(s) > 120 {
		s = s[:120] + "…"
	}
	return s
}

// slots: for a consistent base assignment, flip every byte of one integer leaf
// and observe which wire bytes change.
func slotProbe(s smbgen.Struct, rels []smbgen.Relation) {
	rng := r.Rand("slot|" + s.Name)
	c := s.New()
	smbgen.Fill(c, rels, rng, smbgen.ModeDistinct, 6)
	base, err, pan, _, _ := marshal(c)
	if pan || err != nil {
		return // reported by roundTrip
	}
	params, _, ok := smbgen.Blocks(base)
	if !ok {
		return
	}
	dataStart := 1 + len(params) + 2
	counts := smbgen.CountFields(rels)
	leaves := smbgen.IntLeaves(s.Type)
	var slots []slot
	for _, lf := range leaves {
		v := lf.Leaf(reflect.ValueOf(c).Elem())
		orig := smbgen.GetBits(v)
		smbgen.SetBits(v, ^orig)
		b, err, pan, _, _ := marshal(c)
		smbgen.SetBits(v, orig)
		r.Eval(1)
		r.Count("slot_probes", 1)
		if pan || err != nil {
			continue
		}
		key := s.Name + ":slot:" + lf.Path
		cs := map[string]any{"struct": s.Name, "field": lf.Path, "base_wire": mon.FullHex(base), "probe_wire": mon.FullHex(b)}
		if len(b) != len(base) {
			if !counts[lf.Top] {
				r.Violation(key+":length-changed", fmt.Sprintf("changing fixed-width field %s changed the encoded length %d -> %d", lf.Path, len(base), len(b)), cs)
			}
			continue
		}
		var pos []int
		for i := range b {
			if b[i] != base[i] {
				pos = append(pos, i)
			}
		}
		if len(pos) == 0 {
			if !counts[lf.Top] {
				r.Violation(key+":not-on-wire", fmt.Sprintf("changing field %s (width %d) changes no wire byte", lf.Path, lf.Width), cs)
			}
			continue
		}
		lo, hi := pos[0], pos[len(pos)-1]+1
		if hi-lo != len(pos) || len(pos) != lf.Width {
			r.Violation(key+":width", fmt.Sprintf("field %s (width %d): complementing it changed wire bytes %v", lf.Path, lf.Width, pos), cs)
			continue
		}
		slots = append(slots, slot{leaf: lf, lo: lo, hi: hi, inData: lo >= dataStart})
		r.Nontrivial("slot|" + s.Name + "|" + lf.Path)
	}
	// disjointness and declared order within each block
	for i := 0; i < len(slots); i++ {
		for j := i + 1; j < len(slots); j++ {
			a, b := slots[i], slots[j]
			if a.lo < b.hi && b.lo < a.hi {
				r.Violation(s.Name+":slot:"+a.leaf.Path+":overlap", fmt.Sprintf("slots of %s [%d,%d) and %s [%d,%d) overlap", a.leaf.Path, a.lo, a.hi, b.leaf.Path, b.lo, b.hi), map[string]any{"struct": s.Name})
			} else if a.inData == b.inData && a.lo > b.lo {
				r.Violation(s.Name+":slot:"+b.leaf.Path+":order", fmt.Sprintf("%s is declared before %s but encoded after it ([%d,%d) vs [%d,%d))", a.leaf.Path, b.leaf.Path, a.lo, a.hi, b.lo, b.hi), map[string]any{"struct": s.Name})
			}
		}
	}
	if s.Name == "ReadAndxRequest" || s.Name == "NtCreateAndxRequest" {
		var desc []string
		for _, sl := range slots {
			desc = append(desc, fmt.Sprintf("%s@[%d,%d)", sl.leaf.Path, sl.lo, sl.hi))
		}
		r.Sample(map[string]any{"struct": s.Name, "slots": desc})
	}
}

func main() {
	r = mon.Start("C04", "exploration")
	structs, _, _ := smbgen.Enumerate()
	r.Extra("structures", len(structs))
	r.Rule("Every structure returned by CreateRequestCommand/CreateResponseCommand over all 256 codes is filled by reflection (5 deterministic value classes: byte-distinct, all-ones, sign-bit, one; then seeded random), made internally consistent from the length/count relations its own Unmarshal imposes, encoded, decoded into a fresh structure, compared leaf by leaf and re-encoded; each fixed-width integer leaf is complemented to find its wire slot (width, disjointness, declared order). Non-trivial/distinct: distinct (structure, value class, iteration, wire prefix) with a non-empty encoding, plus distinct (structure, field) slots located.")
	r.Assume("internal consistency = the relations extracted from each command's own Unmarshal source (slice length <-> count field, fixed pads, rest-of-block)", "strings are NUL-free in every buffer format; SMB_STRING compared on Buffer only", "AndX chaining of a second command is not exercised")
	if len(structs) < 50 {
		r.Inconclusive(fmt.Sprintf("only %d structures reachable from the factories", len(structs)))
	}
	only := os.Getenv("VERIF_ONLY")
	unconstrained := map[string][]string{}
	nRandom := r.Pick(400, 3000)
	var names []string
	for _, s := range structs {
		if only != "" && s.Name != only {
			continue
		}
		names = append(names, s.Name)
		rels := smbgen.Relations(s.Name)
		// which slices have no relation
		probe := s.New()
		if u := smbgen.Fill(probe, rels, r.Rand("probe|"+s.Name), smbgen.ModeOne, 4); len(u) > 0 {
			unconstrained[s.Name] = u
		}
		for m := smbgen.ModeDistinct; m <= smbgen.ModeOne; m++ {
			roundTrip(s, rels, m, 0, 6)
		}
		for i := 0; i < nRandom; i++ {
			maxLen := 40
			if i%10 == 9 {
				maxLen = 600
			}
			roundTrip(s, rels, smbgen.ModeRandom, i, maxLen)
		}
		slotProbe(s, rels)
	}
	sort.Strings(names)
	r.Extra("structure_names", names)
	r.Extra("slices_without_relation", unconstrained)
	r.Finish()
}
