// Independent RFC 1035 message codec used as the reference of C09. Written from
// RFC 1035 §3.1 (name wire format), §4.1 (message format) and §4.1.4 (compression);
// it shares no code with /repo/network/llmnr. RDATA is opaque (as in the library).
package main

import (
	"bytes"
	"encoding/binary"
	"fmt"
	"math/rand/v2"
)

// Name is a sequence of labels; the root name is the empty sequence.
type Name [][]byte

func (n Name) Text() string {
	var b bytes.Buffer
	for i, l := range n {
		if i > 0 {
			b.WriteByte('.')
		}
		b.Write(l)
	}
	return b.String()
}

// WireLen is the length of the uncompressed wire form.
func (n Name) WireLen() int {
	t := 1
	for _, l := range n {
		t += 1 + len(l)
	}
	return t
}

func (n Name) Valid() bool {
	for _, l := range n {
		if len(l) < 1 || len(l) > 63 || bytes.IndexByte(l, '.') >= 0 {
			return false
		}
	}
	return n.WireLen() <= 255
}

func (n Name) Wire() []byte {
	var b []byte
	for _, l := range n {
		b = append(b, byte(len(l)))
		b = append(b, l...)
	}
	return append(b, 0)
}

type RQ struct {
	Name        Name
	Type, Class uint16
}

type RRR struct {
	Name        Name
	Type, Class uint16
	TTL         uint32
	RData       []byte
}

type RMsg struct {
	ID, Flags  uint16
	Q          []RQ
	An, Ns, Ar []RRR
}

// Comp selects how the reference writer uses RFC 1035 §4.1.4 compression.
type Comp struct {
	On      bool    // use pointers at all
	Prob    float64 // probability that a compressible name is actually compressed (1 = always)
	PtrRoot bool    // also replace a final root label by a pointer to an earlier 0x00 name terminator
	Rng     *rand.Rand
}

// NameEnc says how one name ended up on the wire.
type NameEnc struct {
	Off    int  // offset of the name field
	Ptr    bool // ends in a pointer
	Target int  // pointer target
	Lead   int  // labels written before the pointer
	Depth  int  // pointer hops needed to expand it
	ToRoot bool // the pointer designates a bare root label
}

type packer struct {
	b      []byte
	c      Comp
	suffix map[string]int // key of label-suffix -> offset of an earlier occurrence
	depth  map[int]int    // offset -> pointer hops needed when expanding from there
	roots  []int          // offsets of 0x00 terminators of earlier names
	Names  []NameEnc
}

func suffixKey(n Name) string {
	var b []byte
	for _, l := range n {
		b = append(b, byte(len(l)))
		b = append(b, l...)
	}
	return string(b)
}

func (p *packer) name(n Name) {
	start := len(p.b)
	info := NameEnc{Off: start}
	use := p.c.On && (p.c.Prob >= 1 || p.c.Rng == nil || p.c.Rng.Float64() < p.c.Prob)
	cut := len(n) // labels [0,cut) are written literally
	target := -1
	if use {
		for i := 0; i < len(n); i++ {
			if off, ok := p.suffix[suffixKey(n[i:])]; ok {
				cut, target = i, off
				break
			}
		}
		if target < 0 && p.c.PtrRoot && len(p.roots) > 0 && len(n) > 0 {
			target = p.roots[0]
			if p.c.Rng != nil {
				target = p.roots[p.c.Rng.IntN(len(p.roots))]
			}
			info.ToRoot = true
		}
	}
	offs := make([]int, 0, cut)
	for i := 0; i < cut; i++ {
		offs = append(offs, len(p.b))
		p.b = append(p.b, byte(len(n[i])))
		p.b = append(p.b, n[i]...)
	}
	d := 0
	if target >= 0 {
		info.Ptr, info.Target, info.Lead = true, target, cut
		d = p.depth[target] + 1
		info.Depth = d
		p.b = append(p.b, 0xC0|byte(target>>8), byte(target))
	} else {
		if len(p.b) < 0x4000 {
			p.roots = append(p.roots, len(p.b))
		}
		p.b = append(p.b, 0)
	}
	for i, o := range offs {
		if o < 0x4000 {
			k := suffixKey(n[i:])
			if _, ok := p.suffix[k]; !ok {
				p.suffix[k] = o
				p.depth[o] = d
			}
		}
	}
	p.Names = append(p.Names, info)
}

func (p *packer) u16(v uint16) { p.b = binary.BigEndian.AppendUint16(p.b, v) }
func (p *packer) u32(v uint32) { p.b = binary.BigEndian.AppendUint32(p.b, v) }

// Pack writes the message per RFC 1035 §4.1; counts are the section sizes.
func (m *RMsg) Pack(c Comp) ([]byte, []NameEnc) {
	p := &packer{c: c, suffix: map[string]int{}, depth: map[int]int{}}
	p.u16(m.ID)
	p.u16(m.Flags)
	p.u16(uint16(len(m.Q)))
	p.u16(uint16(len(m.An)))
	p.u16(uint16(len(m.Ns)))
	p.u16(uint16(len(m.Ar)))
	for _, q := range m.Q {
		p.name(q.Name)
		p.u16(q.Type)
		p.u16(q.Class)
	}
	for _, sec := range [][]RRR{m.An, m.Ns, m.Ar} {
		for _, rr := range sec {
			p.name(rr.Name)
			p.u16(rr.Type)
			p.u16(rr.Class)
			p.u32(rr.TTL)
			p.u16(uint16(len(rr.RData)))
			p.b = append(p.b, rr.RData...)
		}
	}
	return p.b, p.Names
}

// Walk is what an examiner of one name field finds. It follows every pointer it
// is able to follow (so that it can describe hostile inputs), and separately says
// whether the name satisfies the strict reading of RFC 1035.
type Walk struct {
	Labels  Name
	End     int // offset just after the name field (valid when the first segment is well formed)
	EndOK   bool
	Err     string // "", "truncated", "ptr-self", "ptr-forward", "ptr-oob", "loop", "reserved-label"
	Strict  bool   // every pointer targets an offset before the start of the segment holding it, no reserved label type, wire length <= 255
	InBand  bool   // some pointer targets s <= t < p (inside its own segment, before itself)
	Ptrs    int
	Header  bool // a pointer targets an offset < 12
	WireLen int
}

// MustReject: no decoder can return a value for this name without reading a
// non-backward pointer, looping, or reading past the buffer.
func (w *Walk) MustReject() bool {
	switch w.Err {
	case "truncated", "ptr-self", "ptr-forward", "ptr-oob", "loop":
		return true
	}
	return false
}

// hdr is the size of a leading non-name region (12 for a message, 0 for a bare buffer):
// a pointer into it is followed but is not a 'prior occurrence of a name'.
func walkName(b []byte, off, hdr int) Walk {
	w := Walk{Strict: true, WireLen: 1}
	if off < 0 || off >= len(b) {
		w.Err, w.Strict = "truncated", false
		return w
	}
	seg := off // start of the current segment
	cur := off
	first := true
	seen := map[int]bool{}
	for {
		if cur >= len(b) {
			w.Err, w.Strict = "truncated", false
			return w
		}
		c := int(b[cur])
		switch c & 0xC0 {
		case 0x00:
			if c == 0 {
				if first {
					w.End, w.EndOK = cur+1, true
				}
				if w.WireLen > 255 {
					w.Strict = false
				}
				return w
			}
			if cur+1+c > len(b) {
				w.Err, w.Strict = "truncated", false
				return w
			}
			w.Labels = append(w.Labels, append([]byte(nil), b[cur+1:cur+1+c]...))
			w.WireLen += 1 + c
			cur += 1 + c
			if w.WireLen > 70000 { // cannot happen without a loop; belt and braces
				w.Err, w.Strict = "loop", false
				return w
			}
		case 0xC0:
			if cur+1 >= len(b) {
				w.Err, w.Strict = "truncated", false
				return w
			}
			t := int(binary.BigEndian.Uint16(b[cur:]) & 0x3FFF)
			if first {
				w.End, w.EndOK = cur+2, true
				first = false
			}
			w.Ptrs++
			switch {
			case t >= len(b):
				w.Err, w.Strict = "ptr-oob", false
				return w
			case t == cur:
				w.Err, w.Strict = "ptr-self", false
				return w
			case t > cur:
				w.Err, w.Strict = "ptr-forward", false
				return w
			}
			if seen[cur] {
				w.Err, w.Strict = "loop", false
				return w
			}
			seen[cur] = true
			if t >= seg {
				w.InBand, w.Strict = true, false
			}
			if t < hdr {
				w.Header, w.Strict = true, false
			}
			seg, cur = t, t
		default: // 0x40, 0x80: reserved label types
			w.Err, w.Strict = "reserved-label", false
			return w
		}
	}
}

type perr struct{ class, msg string }

func (e *perr) Error() string { return e.class + ": " + e.msg }

// Unpack is the strict reader: RFC 1035 §4.1 with §4.1.4 pointers that must
// designate a prior occurrence (an offset before the name segment holding the
// pointer). Trailing bytes are an error.
func Unpack(b []byte) (*RMsg, []Walk, error) {
	if len(b) < 12 {
		return nil, nil, &perr{"truncated", "header"}
	}
	m := &RMsg{ID: binary.BigEndian.Uint16(b), Flags: binary.BigEndian.Uint16(b[2:])}
	cnt := [4]int{}
	for i := range cnt {
		cnt[i] = int(binary.BigEndian.Uint16(b[4+2*i:]))
	}
	off := 12
	var walks []Walk
	name := func(where string) (Name, error) {
		w := walkName(b, off, 12)
		walks = append(walks, w)
		if w.Err != "" {
			return nil, &perr{w.Err, fmt.Sprintf("%s name at %d", where, off)}
		}
		if !w.Strict {
			if w.WireLen > 255 {
				return nil, &perr{"name-too-long", fmt.Sprintf("%s name at %d", where, off)}
			}
			if w.Header && !w.InBand {
				return nil, &perr{"ptr-into-header", fmt.Sprintf("%s name at %d", where, off)}
			}
			return nil, &perr{"ptr-not-prior", fmt.Sprintf("%s name at %d", where, off)}
		}
		off = w.End
		return w.Labels, nil
	}
	for i := 0; i < cnt[0]; i++ {
		n, err := name("question")
		if err != nil {
			return nil, walks, err
		}
		if off+4 > len(b) {
			return nil, walks, &perr{"truncated", "question fixed part"}
		}
		m.Q = append(m.Q, RQ{n, binary.BigEndian.Uint16(b[off:]), binary.BigEndian.Uint16(b[off+2:])})
		off += 4
	}
	secs := []*[]RRR{&m.An, &m.Ns, &m.Ar}
	for s, sec := range secs {
		for i := 0; i < cnt[1+s]; i++ {
			n, err := name(secName[1+s])
			if err != nil {
				return nil, walks, err
			}
			if off+10 > len(b) {
				return nil, walks, &perr{"truncated", secName[1+s] + " fixed part"}
			}
			rr := RRR{Name: n, Type: binary.BigEndian.Uint16(b[off:]), Class: binary.BigEndian.Uint16(b[off+2:]), TTL: binary.BigEndian.Uint32(b[off+4:])}
			rdl := int(binary.BigEndian.Uint16(b[off+8:]))
			off += 10
			if off+rdl > len(b) {
				return nil, walks, &perr{"truncated", secName[1+s] + " rdata"}
			}
			rr.RData = append([]byte{}, b[off:off+rdl]...)
			off += rdl
			*sec = append(*sec, rr)
		}
	}
	if off != len(b) {
		return nil, walks, &perr{"trailing", fmt.Sprintf("%d bytes after the last record", len(b)-off)}
	}
	return m, walks, nil
}

var secName = []string{"question", "answer", "authority", "additional"}

func errClass(err error) string {
	if e, ok := err.(*perr); ok {
		return e.class
	}
	return "other"
}
