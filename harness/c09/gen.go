package main

import (
	"math/rand/v2"
)

// label byte classes
const (
	clsLDH = iota
	clsAny
	clsHigh
	clsSpecial
	nCls
)

var specials = []byte{0x00, 0x01, 0x09, 0x0A, 0x20, 0x2D, 0x2F, 0x3F, 0x40, 0x5C, 0x7F, 0x80, 0xBF, 0xC0, 0xC1, 0xFF}

func genLabel(rng *rand.Rand, n, cls int) []byte {
	b := make([]byte, n)
	for i := range b {
		switch cls {
		case clsLDH:
			b[i] = "abcdefghijklmnopqrstuvwxyzABCDEFGHIJKLMNOPQRSTUVWXYZ0123456789-"[rng.IntN(63)]
		case clsAny:
			for {
				b[i] = byte(rng.IntN(256))
				if b[i] != '.' {
					break
				}
			}
		case clsHigh:
			b[i] = byte(0x80 + rng.IntN(128))
		default:
			b[i] = specials[rng.IntN(len(specials))]
		}
	}
	return b
}

func labelLen(rng *rand.Rand) int {
	switch rng.IntN(10) {
	case 0:
		return 1
	case 1:
		return 2
	case 2:
		return 62
	case 3:
		return 63
	case 4:
		return 1 + rng.IntN(63)
	default:
		return 1 + rng.IntN(12)
	}
}

// fit trims a name so that its wire length is at most 255.
func fit(n Name) Name {
	for n.WireLen() > 255 {
		over := n.WireLen() - 255
		last := n[len(n)-1]
		if len(last)-over >= 1 {
			n[len(n)-1] = last[:len(last)-over]
		} else {
			n = n[:len(n)-1]
		}
	}
	return n
}

func genName(rng *rand.Rand) Name {
	cls := rng.IntN(nCls)
	var nl int
	switch rng.IntN(12) {
	case 0:
		return Name{}
	case 1:
		nl = 1
	case 2:
		nl = 127 // as many labels as fit
	case 3:
		nl = 5 + rng.IntN(60)
	default:
		nl = 1 + rng.IntN(4)
	}
	var n Name
	for i := 0; i < nl; i++ {
		l := labelLen(rng)
		if nl > 8 {
			l = 1 + rng.IntN(3)
		}
		c := cls
		if rng.IntN(6) == 0 {
			c = rng.IntN(nCls)
		}
		n = append(n, genLabel(rng, l, c))
	}
	return fit(n)
}

// exactName builds a name whose wire length is exactly w (w >= 3) from labels of at most maxLabel bytes.
func exactName(w, maxLabel int, fill byte) Name {
	var n Name
	rem := w - 1
	for rem > 0 {
		l := maxLabel
		if rem-1 < l {
			l = rem - 1
		}
		if rem-1-l == 1 { // would leave a lone length byte
			l--
		}
		lab := make([]byte, l)
		for i := range lab {
			lab[i] = fill + byte(len(n)%7)
		}
		n = append(n, lab)
		rem -= 1 + l
	}
	return n
}

var boundaryU16 = []uint16{0, 1, 2, 0x00FF, 0x0100, 0x7FFF, 0x8000, 0x8001, 0xFFFE, 0xFFFF}
var boundaryU32 = []uint32{0, 1, 30, 0xFFFF, 0x10000, 0x7FFFFFFF, 0x80000000, 0xFFFFFFFF}
var flagWords = []uint16{0, 1 << 15, 1 << 14, 1 << 13, 1 << 12, 1 << 11, 0x7800, 0x000F, 0xFFFF, 0x8400}
var rdLens = []int{0, 1, 4, 16, 255, 256, 65535}

func pickU16(rng *rand.Rand) uint16 {
	switch rng.IntN(4) {
	case 0, 1:
		return boundaryU16[rng.IntN(len(boundaryU16))]
	case 2:
		return uint16(rng.IntN(0x42)) // the small codes, where every assigned type and class lives
	}
	return uint16(rng.Uint32())
}

func pickU32(rng *rand.Rand) uint32 {
	if rng.IntN(2) == 0 {
		return boundaryU32[rng.IntN(len(boundaryU32))]
	}
	return rng.Uint32()
}

func genBytes(rng *rand.Rand, n int) []byte {
	b := make([]byte, n)
	for i := 0; i+8 <= n; i += 8 {
		v := rng.Uint64()
		for j := 0; j < 8; j++ {
			b[i+j] = byte(v >> (8 * j))
		}
	}
	for i := n &^ 7; i < n; i++ {
		b[i] = byte(rng.IntN(256))
	}
	return b
}

// nameShapedRData: RDATA that reads as a domain name at its place in a packet: plain labels, labels
// ending in a pointer to offset 12 (where the first name of any message starts), a pointer alone.
// To a codec RDATA is opaque; it comes back as these octets whatever the record's type.
func nameShapedRData(rng *rand.Rand) []byte {
	var b []byte
	for i := rng.IntN(3); i > 0; i-- {
		l := genLabel(rng, 1+rng.IntN(8), 0)
		b = append(append(b, byte(len(l))), l...)
	}
	switch rng.IntN(4) {
	case 0:
		b = append(b, 0)
	case 1:
		b = append(b, 0xC0, 0x0C, 0)
	default:
		b = append(b, 0xC0, 0x0C)
	}
	return b
}

func genRData(rng *rand.Rand, allowBig bool) []byte {
	var n int
	switch rng.IntN(11) {
	case 10:
		return nameShapedRData(rng)
	case 0:
		n = 0
	case 1:
		n = 1
	case 2, 3:
		n = 4
	case 4:
		n = 16
	case 5:
		n = []int{255, 256}[rng.IntN(2)]
	case 6:
		if allowBig {
			n = []int{65535, 65534, 16384, 16383}[rng.IntN(4)]
		} else {
			n = rng.IntN(600)
		}
	default:
		n = rng.IntN(40)
	}
	return genBytes(rng, n)
}

// namePool yields names that share suffixes, so that a compressing writer has something to do.
type namePool struct {
	rng  *rand.Rand
	base []Name
}

func newPool(rng *rand.Rand) *namePool {
	p := &namePool{rng: rng}
	for i := 0; i < 1+rng.IntN(3); i++ {
		p.base = append(p.base, genName(rng))
	}
	return p
}

func cloneName(n Name) Name {
	c := make(Name, len(n))
	for i, l := range n {
		c[i] = append([]byte(nil), l...)
	}
	return c
}

func (p *namePool) next() Name {
	b := p.base[p.rng.IntN(len(p.base))]
	switch x := p.rng.IntN(20); {
	case x < 7:
		return cloneName(b)
	case x < 13: // new leading labels + base
		n := Name{}
		for i := 0; i < 1+p.rng.IntN(2); i++ {
			n = append(n, genLabel(p.rng, labelLen(p.rng), p.rng.IntN(nCls)))
		}
		n = append(n, cloneName(b)...)
		if n.WireLen() > 255 {
			return cloneName(b)
		}
		p.base = append(p.base, n) // lets chains grow: x.base, y.x.base, ...
		if len(p.base) > 12 {
			p.base = p.base[1:]
		}
		return cloneName(n)
	case x < 16: // a suffix of base
		if len(b) == 0 {
			return Name{}
		}
		return cloneName(b[p.rng.IntN(len(b)):])
	default:
		return genName(p.rng)
	}
}

func genMsg(rng *rand.Rand, nq, nan, nns, nar int, big bool) *RMsg {
	m := &RMsg{ID: pickU16(rng), Flags: pickU16(rng)}
	if rng.IntN(3) == 0 {
		m.Flags = flagWords[rng.IntN(len(flagWords))]
	}
	pool := newPool(rng)
	for i := 0; i < nq; i++ {
		m.Q = append(m.Q, RQ{pool.next(), pickU16(rng), pickU16(rng)})
	}
	bigLeft := 1
	mk := func(n int) []RRR {
		var s []RRR
		for i := 0; i < n; i++ {
			ab := big && bigLeft > 0
			rd := genRData(rng, ab)
			if len(rd) > 10000 {
				bigLeft--
			}
			s = append(s, RRR{pool.next(), pickU16(rng), pickU16(rng), pickU32(rng), rd})
		}
		return s
	}
	m.An, m.Ns, m.Ar = mk(nan), mk(nns), mk(nar)
	return m
}
