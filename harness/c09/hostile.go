package main

import (
	"bufio"
	"bytes"
	"encoding/binary"
	"encoding/hex"
	"encoding/json"
	"fmt"
	"os"
	"os/exec"
	"path/filepath"
	"runtime/debug"
	"strconv"
	"strings"
	"sync"
	"sync/atomic"
	"syscall"
	"time"

	"github.com/TheManticoreProject/Manticore/network/llmnr"

	"verif/mon"
)

// hcase is one hostile input handed to a child process.
type hcase struct {
	I    int    `json:"i"`
	Fam  string `json:"fam"`
	Kind string `json:"kind"` // "name": DecodeDomainName(data, off); "msg": DecodeMessage(data)
	Off  int    `json:"off"`
	Data string `json:"data"` // hex
	raw  []byte
}

type wRR struct {
	N   string `json:"n"` // hex of the name string's bytes
	T   uint16 `json:"t"`
	C   uint16 `json:"c"`
	TTL uint32 `json:"ttl"`
	L   uint16 `json:"l"`
	D   string `json:"d"` // hex
}

type wMsg struct {
	ID, Flags uint16
	Cnt       [4]uint16
	Q         []wRR
	An        []wRR
	Ns        []wRR
	Ar        []wRR
}

type hresult struct {
	I     int    `json:"i"`
	Panic string `json:"panic,omitempty"`
	Frame string `json:"frame,omitempty"`
	Err   string `json:"err,omitempty"`
	OK    bool   `json:"ok"`
	Name  string `json:"name,omitempty"` // hex
	End   int    `json:"end"`
	Msg   *wMsg  `json:"msg,omitempty"`
}

const cpuBoundSeconds = 20.0

func cpuSeconds() float64 {
	var ru syscall.Rusage
	if syscall.Getrusage(syscall.RUSAGE_SELF, &ru) != nil {
		return 0
	}
	return float64(ru.Utime.Sec) + float64(ru.Utime.Usec)/1e6 + float64(ru.Stime.Sec) + float64(ru.Stime.Usec)/1e6
}

// worker is the child-process mode: read cases, journal each before decoding it,
// decode with the library, write the raw outcome. The parent judges.
func worker() {
	debug.SetMaxStack(64 << 20)
	cases := os.Getenv("C09_CASES")
	journal, err := os.OpenFile(os.Getenv("C09_JOURNAL"), os.O_CREATE|os.O_WRONLY|os.O_APPEND, 0o644)
	if err != nil {
		fmt.Fprintln(os.Stderr, "worker: journal:", err)
		os.Exit(4)
	}
	out, err := os.OpenFile(os.Getenv("C09_OUT"), os.O_CREATE|os.O_WRONLY|os.O_APPEND, 0o644)
	if err != nil {
		fmt.Fprintln(os.Stderr, "worker: out:", err)
		os.Exit(4)
	}
	f, err := os.Open(cases)
	if err != nil {
		fmt.Fprintln(os.Stderr, "worker: cases:", err)
		os.Exit(4)
	}
	bound := cpuBoundSeconds
	if s := os.Getenv("C09_CPU_BOUND"); s != "" {
		if v, e := strconv.ParseFloat(s, 64); e == nil {
			bound = v
		}
	}
	var cur atomic.Int64 // index of the case being decoded, -1 when idle
	var curStart atomic.Uint64
	cur.Store(-1)
	go func() { // watchdog on process CPU time spent inside one call
		for {
			time.Sleep(200 * time.Millisecond)
			i := cur.Load()
			if i < 0 {
				continue
			}
			start := float64(curStart.Load()) / 1e6
			if cpuSeconds()-start > bound && cur.Load() == i {
				os.WriteFile(os.Getenv("C09_JOURNAL")+".stuck", []byte(strconv.FormatInt(i, 10)), 0o644)
				os.Exit(3)
			}
		}
	}()
	sc := bufio.NewScanner(f)
	sc.Buffer(make([]byte, 1<<20), 1<<24)
	for sc.Scan() {
		var c hcase
		if json.Unmarshal(sc.Bytes(), &c) != nil {
			continue
		}
		data, _ := hex.DecodeString(c.Data)
		journal.WriteString(strconv.Itoa(c.I) + "\n")
		res := hresult{I: c.I}
		curStart.Store(uint64(cpuSeconds() * 1e6))
		cur.Store(int64(c.I))
		p, v, st := mon.Guard(func() {
			if c.Kind == "name" {
				s, end, err := llmnr.DecodeDomainName(data, c.Off)
				res.End = end
				if err != nil {
					res.Err = err.Error()
				} else {
					res.OK, res.Name = true, hex.EncodeToString([]byte(s))
				}
			} else {
				m, err := llmnr.DecodeMessage(data)
				if err != nil {
					res.Err = err.Error()
				} else {
					res.OK, res.Msg = true, toWire(m)
				}
			}
		})
		cur.Store(-1)
		if p {
			res.OK, res.Panic, res.Frame = false, fmt.Sprint(v), mon.TopLibFrame(st)
		}
		b, _ := json.Marshal(res)
		out.Write(append(b, '\n'))
	}
	os.Exit(0)
}

func toWire(m *llmnr.Message) *wMsg {
	w := &wMsg{ID: m.ID, Flags: m.Flags, Cnt: [4]uint16{m.QDCount, m.ANCount, m.NSCount, m.ARCount}}
	for _, q := range m.Questions {
		w.Q = append(w.Q, wRR{N: hex.EncodeToString([]byte(q.Name)), T: q.Type, C: q.Class})
	}
	conv := func(s []llmnr.ResourceRecord) []wRR {
		var o []wRR
		for _, x := range s {
			o = append(o, wRR{hex.EncodeToString([]byte(x.Name)), x.Type, x.Class, x.TTL, x.RDLength, hex.EncodeToString(x.RData)})
		}
		return o
	}
	w.An, w.Ns, w.Ar = conv(m.Answers), conv(m.Authority), conv(m.Additional)
	return w
}

func fromWire(w *wMsg) *llmnr.Message {
	m := &llmnr.Message{}
	m.ID, m.Flags = w.ID, w.Flags
	m.QDCount, m.ANCount, m.NSCount, m.ARCount = w.Cnt[0], w.Cnt[1], w.Cnt[2], w.Cnt[3]
	unhex := func(s string) []byte { b, _ := hex.DecodeString(s); return b }
	for _, q := range w.Q {
		m.Questions = append(m.Questions, llmnr.Question{Name: string(unhex(q.N)), Type: q.T, Class: q.C})
	}
	conv := func(s []wRR) []llmnr.ResourceRecord {
		var o []llmnr.ResourceRecord
		for _, x := range s {
			o = append(o, llmnr.ResourceRecord{Name: string(unhex(x.N)), Type: x.T, Class: x.C, TTL: x.TTL, RDLength: x.L, RData: unhex(x.D)})
		}
		return o
	}
	m.Answers, m.Authority, m.Additional = conv(w.An), conv(w.Ns), conv(w.Ar)
	return m
}

// ---------- hostile case generation ----------

type hgen struct{ cases []*hcase }

func (g *hgen) name(fam string, data []byte, off int) {
	g.cases = append(g.cases, &hcase{I: len(g.cases), Fam: fam, Kind: "name", Off: off, raw: append([]byte(nil), data...)})
}
func (g *hgen) msg(fam string, data []byte) {
	g.cases = append(g.cases, &hcase{I: len(g.cases), Fam: fam, Kind: "msg", raw: append([]byte(nil), data...)})
}

func ptr(t int) []byte { return []byte{0xC0 | byte(t>>8), byte(t)} }

func cat(parts ...[]byte) []byte {
	var b []byte
	for _, p := range parts {
		b = append(b, p...)
	}
	return b
}

func (g *hgen) deterministic() {
	abc := []byte{3, 'a', 'b', 'c', 0} // 5 bytes
	// self pointers at several offsets
	for _, off := range []int{0, 1, 5, 12, 255, 256, 0x3FFE} {
		buf := make([]byte, off)
		g.name("self", cat(buf, ptr(off)), off)
		g.name("self", cat(buf, ptr(off), abc), off)
		g.name("self-after-label", cat(buf, []byte{1, 'x'}, ptr(off+2)), off)
	}
	// pointer to the start of the name that contains it / to its second label
	for _, pre := range []int{0, 5, 12} {
		b := cat(bytes.Repeat(abc, pre/5+1)[:pre], []byte{1, 'x', 2, 'y', 'z'})
		g.name("own-start", cat(b, ptr(pre)), pre)
		g.name("own-second-label", cat(b, ptr(pre+2)), pre)
		// into the middle of one of its own labels (terminates if read literally)
		g.name("own-mid-label", cat(bytes.Repeat([]byte{0xAA}, pre), []byte{5, 'a', 1, 'b', 0, 'c'}, ptr(pre+2)), pre)
	}
	// forward pointers: to a root label, to a valid name, to the byte after itself
	g.name("forward-root", cat(ptr(2), []byte{0}), 0)
	g.name("forward-name", cat(ptr(2), abc), 0)
	g.name("forward-name", cat(abc, []byte{1, 'x'}, ptr(9), abc), 5)
	g.name("forward-far", cat(ptr(300), make([]byte, 298), abc), 0)
	// mutual loops, decoded from both ends; 3-cycle
	g.name("mutual", cat(ptr(2), ptr(0)), 0)
	g.name("mutual", cat(ptr(2), ptr(0)), 2)
	g.name("mutual-labels", cat([]byte{1, 'a'}, ptr(4), []byte{1, 'b'}, ptr(0)), 0)
	g.name("mutual-labels", cat([]byte{1, 'a'}, ptr(4), []byte{1, 'b'}, ptr(0)), 4)
	g.name("cycle3", cat(ptr(4), ptr(0), ptr(2)), 0)
	g.name("cycle3", cat(ptr(4), ptr(0), ptr(2)), 2)
	g.name("cycle3", cat(ptr(4), ptr(0), ptr(2)), 4)
	// a backward pointer to an earlier place that loops on itself
	g.name("backward-into-loop", cat([]byte{1, 'a'}, ptr(0), []byte{1, 'b'}, ptr(0)), 4)
	g.name("backward-into-self", cat(ptr(0), []byte{1, 'b'}, ptr(0)), 2)
	// a cycle made of pointers only that lies wholly before the name being read (every hop points
	// before that name's start: only a bound that shrinks with every hop, or a hop count, ends it)
	g.name("backward-into-cycle", cat(ptr(2), ptr(0), []byte{1, 'b'}, ptr(0)), 4)
	g.name("backward-into-cycle", cat(ptr(2), ptr(0), ptr(0)), 4)
	g.name("backward-into-cycle", cat(ptr(2), ptr(4), ptr(0), []byte{1, 'b'}, ptr(2)), 6)
	g.name("backward-into-cycle", cat(abc, ptr(7), ptr(5), []byte{2, 'x', 'y'}, ptr(7)), 9)
	// out of range targets
	for _, n := range []int{0, 1, 2, 0x3FFF - 12} {
		b := cat(abc, []byte{1, 'x'})
		g.name("oob", cat(b, ptr(len(b)+2+n)), 5)
	}
	g.name("oob-max", cat(abc, ptr(0x3FFF)), 5)
	// truncations of a compressed name and of plain names
	full := cat(abc, []byte{2, 'x', 'y', 1, 'z'}, ptr(0))
	for n := 5; n < len(full); n++ {
		g.name("truncated", full[:n], 5)
	}
	for _, l := range []int{1, 2, 62, 63} {
		lab := cat([]byte{byte(l)}, bytes.Repeat([]byte{'q'}, l))
		g.name("truncated", lab, 0)              // no terminator
		g.name("truncated", lab[:len(lab)-1], 0) // label cut
	}
	g.name("offset-at-end", abc, 5)
	g.name("offset-beyond-end", abc, 6)
	// reserved label types 0x40..0xBF, with and without following data
	for b0 := 0x40; b0 < 0xC0; b0++ {
		g.name("reserved-type", cat(abc, []byte{byte(b0)}), 5)
		g.name("reserved-type", cat(abc, []byte{byte(b0)}, bytes.Repeat([]byte{'r'}, 200), []byte{0}), 5)
		g.name("reserved-type-after-label", cat(abc, []byte{1, 'x', byte(b0), 0x00, 0x00}), 5)
	}
	// every first byte with several second bytes, name at offset 5 after a valid name
	for b0 := 0; b0 < 256; b0++ {
		for _, b1 := range []byte{0x00, 0x01, 0x05, 0x06, 0x07, 0xFF} {
			g.name("first-two-bytes", cat(abc, []byte{byte(b0), b1}, bytes.Repeat([]byte{0}, 70)), 5)
		}
	}
	// every target 0..127 from a name at offset 64 in a 100-byte buffer
	var prior []byte
	for len(prior) < 64 {
		prior = append(prior, cat([]byte{2, 'p', byte('0' + len(prior)%10), 3, 'q', 'r', 's'}, abc)...)
	}
	prior = prior[:63]
	prior = append(prior, 0)
	for t := 0; t < 128; t++ {
		b := cat(prior, []byte{1, 'x'}, ptr(t), bytes.Repeat([]byte{0}, 32))
		g.name("target-sweep", b, 64)
		b2 := cat(prior, ptr(t), bytes.Repeat([]byte{0}, 34))
		g.name("target-sweep-bare", b2, 64)
	}
	// pure pointer chains and label chains up to the 14-bit limit
	for _, d := range []int{1, 2, 3, 9, 10, 11, 100, 1000, 4000, 8190} {
		b := []byte{0}
		for i := 0; i < d; i++ {
			t := 0
			if i > 0 {
				t = 1 + 2*(i-1)
			}
			b = append(b, ptr(t)...)
		}
		g.name("chain-bare", b, len(b)-2)
	}
	for _, d := range []int{1, 2, 9, 10, 11, 60, 125, 126, 127, 128, 1000, 4094} {
		b := []byte{1, 'a', 0}
		last := 0
		for i := 0; i < d; i++ {
			at := len(b)
			b = append(b, 1, byte('b'+i%20))
			b = append(b, ptr(last)...)
			last = at
		}
		g.name("chain-labels", b, last)
	}
	// chains with 63-byte labels (long output)
	{
		b := []byte{0}
		last := 0
		for i := 0; i < 250; i++ {
			at := len(b)
			b = append(b, 63)
			b = append(b, bytes.Repeat([]byte{byte('a' + i%26)}, 63)...)
			b = append(b, ptr(last)...)
			last = at
		}
		g.name("chain-long-labels", b, last)
		for _, d := range []int{1, 2, 3, 4} { // 3 links = 193 bytes: valid; 4 links: too long
			g.name("chain-long-labels", b, d*66-65)
		}
	}
	// large buffers
	big := make([]byte, 65535)
	for i := range big {
		big[i] = 1
	}
	g.name("big-labels-no-end", big, 0)
	big2 := bytes.Repeat([]byte{0xC0, 0x00}, 32767)
	g.name("big-all-pointers", big2, 2)
	g.name("big-all-pointers", big2, 65532)
	big3 := cat([]byte{0}, bytes.Repeat([]byte{63}, 65534))
	g.name("big-63", big3, 1)

	// messages
	hdr := func(q, a, n, x int) []byte {
		b := make([]byte, 12)
		binary.BigEndian.PutUint16(b[0:], 0xBEEF)
		binary.BigEndian.PutUint16(b[2:], 0x8000)
		binary.BigEndian.PutUint16(b[4:], uint16(q))
		binary.BigEndian.PutUint16(b[6:], uint16(a))
		binary.BigEndian.PutUint16(b[8:], uint16(n))
		binary.BigEndian.PutUint16(b[10:], uint16(x))
		return b
	}
	qfix := []byte{0, 1, 0, 1}
	rfix := []byte{0, 1, 0, 1, 0, 0, 0, 30, 0, 4, 1, 2, 3, 4}
	host := []byte{4, 'h', 'o', 's', 't', 0} // at 12..17, fixed part 18..21, next name at 22
	for sec := 1; sec <= 3; sec++ {
		cnt := [4]int{1, 0, 0, 0}
		cnt[sec] = 1
		h := hdr(cnt[0], cnt[1], cnt[2], cnt[3])
		sn := secName[sec]
		g.msg("msg-self:"+sn, cat(h, host, qfix, ptr(22), rfix))
		g.msg("msg-own-start:"+sn, cat(h, host, qfix, []byte{1, 'x'}, ptr(22), rfix))
		g.msg("msg-forward:"+sn, cat(h, host, qfix, ptr(24+len(rfix)), rfix, host))
		g.msg("msg-oob:"+sn, cat(h, host, qfix, ptr(0x3000), rfix))
		g.msg("msg-backward-ok:"+sn, cat(h, host, qfix, ptr(12), rfix))
		g.msg("msg-backward-mid:"+sn, cat(h, host, qfix, []byte{1, 'w'}, ptr(12), rfix))
		g.msg("msg-into-rdata-forward:"+sn, cat(h, host, qfix, ptr(22+2+10), rfix))
		for t := 0; t < 12; t++ {
			g.msg("msg-header-target:"+sn, cat(h, host, qfix, ptr(t), rfix))
		}
		g.msg("msg-reserved:"+sn, cat(h, host, qfix, []byte{0x41, 'x', 0}, rfix))
		g.msg("msg-truncated-rr:"+sn, cat(h, host, qfix, ptr(12), rfix[:9]))
		g.msg("msg-truncated-rdata:"+sn, cat(h, host, qfix, ptr(12), rfix[:len(rfix)-1]))
	}
	g.msg("msg-self:question", cat(hdr(1, 0, 0, 0), ptr(12), qfix))
	g.msg("msg-forward:question", cat(hdr(2, 0, 0, 0), ptr(18), qfix, host, qfix))
	g.msg("msg-backward-ok:question", cat(hdr(2, 0, 0, 0), host, qfix, ptr(12), qfix))
	g.msg("msg-own-start:question", cat(hdr(1, 0, 0, 0), []byte{1, 'x'}, ptr(12), qfix))
	g.msg("msg-truncated:question", cat(hdr(1, 0, 0, 0), host, qfix[:3]))
	g.msg("msg-counts-without-data", hdr(1, 1, 1, 1))
	g.msg("msg-counts-without-data", hdr(0xFFFF, 0xFFFF, 0xFFFF, 0xFFFF))
	for n := 0; n < 12; n++ {
		g.msg("msg-short-header", hdr(0, 0, 0, 0)[:n])
	}
}

// mutated derives hostile messages from valid compressed ones: every pointer is
// retargeted (self, own name start, forward, header, end, out of range, random),
// and name bytes are overwritten.
func (g *hgen) mutated(n int) {
	rng := r.Rand("hostile-mut")
	for len(g.cases) < n {
		m := genMsg(rng, 1+rng.IntN(3), rng.IntN(4), rng.IntN(3), rng.IntN(3), false)
		wire, encs := m.Pack(Comp{On: true, Prob: 0.95, PtrRoot: rng.IntN(4) == 0, Rng: rng})
		if len(wire) > 3000 {
			continue
		}
		any := false
		for _, e := range encs {
			if !e.Ptr {
				continue
			}
			any = true
			at := e.Off
			// position of the pointer inside the name field
			w := walkName(wire, e.Off, 12)
			p := w.End - 2
			targets := []int{p, e.Off, p + 2, p + 1, 0, 11, 12, len(wire) - 1, len(wire), 0x3FFF, rng.IntN(len(wire) + 4), rng.IntN(p + 1)}
			for k, t := range targets {
				if t < 0 || t > 0x3FFF {
					continue
				}
				b := append([]byte(nil), wire...)
				b[p], b[p+1] = 0xC0|byte(t>>8), byte(t)
				g.msg("mut-retarget", b)
				_ = k
			}
			_ = at
		}
		if !any {
			continue
		}
		for k := 0; k < 4; k++ {
			b := append([]byte(nil), wire...)
			for j := 0; j < 1+rng.IntN(3); j++ {
				pos := 12 + rng.IntN(len(b)-12)
				b[pos] = []byte{0xC0, 0xC1, 0xFF, 0x40, 0x80, 0x3F, 0x00, byte(rng.IntN(256))}[rng.IntN(8)]
			}
			g.msg("mut-bytes", b)
		}
		if rng.IntN(3) == 0 {
			g.msg("mut-truncate", wire[:12+rng.IntN(len(wire)-12)])
		}
	}
}

// grammar builds buffers from a token grammar (labels, terminators, pointers to
// token starts or anywhere) and decodes from token starts.
func (g *hgen) grammar(n int) {
	rng := r.Rand("hostile-grammar")
	for len(g.cases) < n {
		var b []byte
		var starts []int
		nt := 2 + rng.IntN(14)
		for i := 0; i < nt; i++ {
			starts = append(starts, len(b))
			switch rng.IntN(6) {
			case 0:
				b = append(b, 0)
			case 1, 2:
				l := labelLen(rng)
				if l > 20 {
					l = 1 + rng.IntN(5)
				}
				b = append(b, byte(l))
				b = append(b, genLabel(rng, l, rng.IntN(nCls))...)
			case 3: // pointer to an earlier or later token start
				b = append(b, ptr(starts[rng.IntN(len(starts))])...)
			case 4:
				b = append(b, ptr(rng.IntN(len(b)+6))...)
			case 5:
				l := 1 + rng.IntN(3)
				b = append(b, byte(l))
				b = append(b, genLabel(rng, l, clsLDH)...)
				b = append(b, 0)
			}
		}
		if rng.IntN(2) == 0 {
			b = append(b, 0)
		}
		for k := 0; k < 3; k++ {
			g.name("grammar", b, starts[rng.IntN(len(starts))])
		}
	}
}

// ---------- running children ----------

type childOutcome struct {
	results map[int]*hresult
	died    bool
	stuck   bool
	last    int // last journalled index
	class   string
	stderr  string
}

var childSeq atomic.Int64

func runChild(cases []*hcase) (*childOutcome, error) {
	work := os.Getenv("VERIF_WORK")
	if work == "" {
		work = os.TempDir()
	}
	id := childSeq.Add(1)
	base := filepath.Join(work, fmt.Sprintf("c09-child-%d", id))
	cf, err := os.Create(base + ".cases")
	if err != nil {
		return nil, err
	}
	bw := bufio.NewWriter(cf)
	for _, c := range cases {
		c.Data = hex.EncodeToString(c.raw)
		b, _ := json.Marshal(c)
		c.Data = ""
		bw.Write(b)
		bw.WriteByte('\n')
	}
	bw.Flush()
	cf.Close()
	bin := os.Getenv("VERIF_BIN")
	if bin == "" {
		bin = os.Args[0]
	}
	cmd := exec.Command(bin)
	cmd.Env = append(os.Environ(), "C09_WORKER=1", "C09_CASES="+base+".cases", "C09_JOURNAL="+base+".journal", "C09_OUT="+base+".out")
	var se bytes.Buffer
	cmd.Stdout = nil
	cmd.Stderr = &limitedWriter{buf: &se, max: 1 << 16}
	done := make(chan error, 1)
	if err := cmd.Start(); err != nil {
		return nil, err
	}
	go func() { done <- cmd.Wait() }()
	var werr error
	select {
	case werr = <-done:
	case <-time.After(15 * time.Minute): // harness watchdog: inconclusive, never a verdict
		cmd.Process.Kill()
		<-done
		return nil, fmt.Errorf("child exceeded the harness wall-clock watchdog")
	}
	o := &childOutcome{results: map[int]*hresult{}, last: -1, stderr: se.String()}
	if f, err := os.Open(base + ".out"); err == nil {
		sc := bufio.NewScanner(f)
		sc.Buffer(make([]byte, 1<<20), 1<<26)
		for sc.Scan() {
			var h hresult
			if json.Unmarshal(sc.Bytes(), &h) == nil {
				hh := h
				o.results[h.I] = &hh
			}
		}
		f.Close()
	}
	if b, err := os.ReadFile(base + ".journal"); err == nil {
		lines := strings.Split(strings.TrimSpace(string(b)), "\n")
		if len(lines) > 0 && lines[len(lines)-1] != "" {
			o.last, _ = strconv.Atoi(lines[len(lines)-1])
		}
	}
	if werr != nil {
		o.died = true
		if _, err := os.Stat(base + ".journal.stuck"); err == nil {
			o.stuck, o.class = true, "nontermination"
		} else if strings.Contains(o.stderr, "stack overflow") || strings.Contains(o.stderr, "goroutine stack exceeds") {
			o.class = "stack-exhaustion"
		} else if strings.Contains(o.stderr, "fatal error:") {
			o.class = "fatal"
		} else {
			o.class = "died"
		}
	}
	for _, s := range []string{".cases", ".journal", ".out", ".journal.stuck"} {
		os.Remove(base + s)
	}
	return o, nil
}

type limitedWriter struct {
	buf *bytes.Buffer
	max int
}

func (l *limitedWriter) Write(p []byte) (int, error) {
	if room := l.max - l.buf.Len(); room > 0 {
		if len(p) > room {
			l.buf.Write(p[:room])
		} else {
			l.buf.Write(p)
		}
	}
	return len(p), nil
}

func caseJSON(c *hcase) map[string]any {
	return map[string]any{"family": c.Fam, "kind": c.Kind, "offset": c.Off, "data_hex": mon.FullHex(c.raw), "len": len(c.raw)}
}

// msgWalkClass examines a hostile message with the reference: the first name on the
// parse path that is not strictly valid decides.
type msgExam struct {
	strict  *RMsg  // non-nil if the strict reader accepts (ignoring nothing)
	class   string // strict reader's error class
	must    bool   // the library must return an error
	where   string // section of the deciding name
	walkErr string
}

func examMsg(b []byte) msgExam {
	m, walks, err := Unpack(b)
	if err == nil {
		return msgExam{strict: m}
	}
	e := msgExam{class: errClass(err)}
	if len(b) < 12 {
		e.must = true
		return e
	}
	// which section was being read
	cnt := [4]int{}
	for i := range cnt {
		cnt[i] = int(binary.BigEndian.Uint16(b[4+2*i:]))
	}
	idx := len(walks) - 1
	sec := 0
	if idx >= 0 {
		k := idx
		for sec = 0; sec < 3 && k >= cnt[sec]; sec++ {
			k -= cnt[sec]
		}
	}
	e.where = secName[sec]
	switch e.class {
	case "truncated", "ptr-self", "ptr-forward", "ptr-oob", "loop":
		e.must = true
	}
	if len(walks) > 0 {
		w := walks[len(walks)-1]
		e.walkErr = w.Err
		if e.class == "truncated" && w.Err == "" && w.Strict {
			// fixed part / rdata cut short
			e.where = e.where + "-body"
		}
	}
	return e
}

func judge(c *hcase, h *hresult) {
	r.Eval(1)
	r.Count("hostile_"+c.Kind+"_cases", 1)
	entry := "DecodeDomainName"
	if c.Kind == "msg" {
		entry = "DecodeMessage"
	}
	if h.Panic != "" {
		r.Violation(entry+":panic:"+mon.PanicClass(h.Panic), fmt.Sprintf("panic %s at %s on a hostile input (%s)", h.Panic, h.Frame, c.Fam), caseJSON(c))
		return
	}
	if c.Kind == "name" {
		w := walkName(c.raw, c.Off, 0)
		if w.Err == "" && !w.Strict && w.WireLen <= 255 && !w.InBand {
			r.Inconclusive("walker: non-strict name without a reason")
		}
		dotted := false
		for _, l := range w.Labels {
			dotted = dotted || bytes.IndexByte(l, '.') >= 0 || len(l) == 0
		}
		switch {
		case dotted && !w.MustReject():
			// a label containing '.' has no unambiguous dotted text form: only termination and panics are judged
			r.Count("hostile_dotted_label", 1)
		case w.MustReject():
			r.Count("hostile_must_reject", 1)
			if h.OK {
				name, _ := hex.DecodeString(h.Name)
				r.Violation(entry+":accepts:"+w.Err, fmt.Sprintf("returned %q, offset %d for a name that needs a %s (%s)", name, h.End, w.Err, c.Fam), caseJSON(c))
			}
		case w.Strict:
			r.Count("hostile_must_accept", 1)
			feat := "plain"
			if w.Ptrs == 1 {
				feat = "ptr"
			} else if w.Ptrs > 1 {
				feat = "chain"
			}
			if len(w.Labels) == 0 && w.Ptrs > 0 {
				feat += "-to-root"
			}
			if !h.OK {
				r.Violation(entry+":rejects-valid:"+feat, fmt.Sprintf("error %q on a name with %d strictly backward pointer(s), wire length %d (%s)", h.Err, w.Ptrs, w.WireLen, c.Fam), caseJSON(c))
				return
			}
			name, _ := hex.DecodeString(h.Name)
			if !sameNameText(string(name), w.Labels) {
				r.Violation(entry+":value:"+feat, fmt.Sprintf("got %q want %q (%s)", name, w.Labels.Text(), c.Fam), caseJSON(c))
			} else if h.End != w.End {
				r.Violation(entry+":offset:"+feat, fmt.Sprintf("new offset %d want %d (%s)", h.End, w.End, c.Fam), caseJSON(c))
			}
		default: // lenient: in-segment target, reserved label type, name longer than 255
			r.Count("hostile_lenient", 1)
			if h.OK {
				r.Count("hostile_lenient_accepted", 1)
				if w.Err == "" {
					name, _ := hex.DecodeString(h.Name)
					if !sameNameText(string(name), w.Labels) || h.End != w.End {
						r.Violation(entry+":value:lenient", fmt.Sprintf("accepted a not strictly valid name but got %q/%d, a literal reading gives %q/%d (%s)", name, h.End, w.Labels.Text(), w.End, c.Fam), caseJSON(c))
					}
				}
			}
		}
		r.Nontrivial("hn|" + fp(c.raw, []byte{byte(c.Off), byte(c.Off >> 8)}))
		return
	}
	e := examMsg(c.raw)
	switch {
	case e.strict != nil:
		r.Count("hostile_must_accept", 1)
		if !h.OK {
			r.Violation(entry+":rejects-valid:hostile-neighbour", fmt.Sprintf("error %q on a message the strict RFC 1035 reader accepts (%s)", h.Err, c.Fam), caseJSON(c))
			return
		}
		if dottedMsg(e.strict) {
			r.Count("hostile_dotted_label", 1)
		} else if k, d := diffLib(e.strict, fromWire(h.Msg), nil); k != "" {
			r.Violation(entry+"~ref:"+k+":hostile-neighbour", "differs from the strict reader: "+d+" ("+c.Fam+")", caseJSON(c))
		}
	case e.must:
		r.Count("hostile_must_reject", 1)
		if h.OK {
			r.Violation(entry+":accepts:"+e.class+":"+e.where, fmt.Sprintf("no error for a message whose %s needs a %s (%s); decoded %d/%d/%d/%d entries", e.where, e.class, c.Fam, len(h.Msg.Q), len(h.Msg.An), len(h.Msg.Ns), len(h.Msg.Ar)), caseJSON(c))
		}
	default:
		r.Count("hostile_lenient", 1)
		if h.OK {
			r.Count("hostile_lenient_accepted", 1)
		}
	}
	r.Nontrivial("hm|" + fp(c.raw))
}

// classOf is the input class used to skip further cases after a fatal witness.
func classOf(c *hcase) string {
	if c.Kind == "name" {
		w := walkName(c.raw, c.Off, 0)
		if w.Err != "" {
			return w.Err
		}
		if w.Strict {
			return "valid"
		}
		return "lenient"
	}
	e := examMsg(c.raw)
	if e.strict != nil {
		return "valid"
	}
	return e.class + ":" + e.where
}

func runShard(cases []*hcase) {
	pending := cases
	skip := map[string]bool{}
	for len(pending) > 0 {
		o, err := runChild(pending)
		if err != nil {
			r.Inconclusive("hostile child: " + err.Error())
			return
		}
		byIdx := map[int]*hcase{}
		for _, c := range pending {
			byIdx[c.I] = c
		}
		for i, h := range o.results {
			if c := byIdx[i]; c != nil {
				judge(c, h)
			}
		}
		if !o.died {
			if len(o.results) != len(pending) {
				r.Inconclusive(fmt.Sprintf("hostile child returned %d results for %d cases", len(o.results), len(pending)))
			}
			return
		}
		wc := byIdx[o.last]
		if wc == nil || o.results[o.last] != nil {
			r.Inconclusive(fmt.Sprintf("hostile child died (%s) outside a decoder call; stderr: %.300s", o.class, o.stderr))
			return
		}
		// replay the candidate alone in a fresh child before reporting it
		o2, err := runChild([]*hcase{wc})
		entry := "DecodeDomainName"
		if wc.Kind == "msg" {
			entry = "DecodeMessage"
		}
		cls := classOf(wc)
		r.Eval(1)
		if err == nil && o2.died {
			r.Violation(entry+":"+o2.class+":"+cls, fmt.Sprintf("decoder did not return on a %d-byte input (%s): child process ended with %s; stderr: %.200s", len(wc.raw), wc.Fam, o2.class, firstLine(o2.stderr)), caseJSON(wc))
		} else {
			r.Inconclusive(fmt.Sprintf("child died (%s) on case %d (%s) but the case alone did not reproduce it", o.class, wc.I, wc.Fam))
		}
		skip[cls] = true
		var rest []*hcase
		past := false
		for _, c := range pending {
			if past {
				if skip[classOf(c)] {
					r.Count("hostile_skipped_after_witness", 1)
					continue
				}
				rest = append(rest, c)
			}
			if c.I == o.last {
				past = true
			}
		}
		pending = rest
	}
}

func firstLine(s string) string {
	for _, l := range strings.Split(s, "\n") {
		if strings.HasPrefix(l, "fatal error:") || strings.HasPrefix(l, "runtime:") {
			return l
		}
	}
	if i := strings.IndexByte(s, '\n'); i >= 0 {
		return s[:i]
	}
	return s
}

func hostile() {
	g := &hgen{}
	g.deterministic()
	nd := len(g.cases)
	g.mutated(nd + r.Pick(40000, 400000))
	g.grammar(len(g.cases) + r.Pick(30000, 300000))
	r.Extra("hostile_deterministic_cases", nd)
	r.Extra("hostile_cases", len(g.cases))
	for i, c := range g.cases {
		if i%(len(g.cases)/5) == 7 {
			r.Sample(map[string]any{"kind": "hostile " + c.Kind, "family": c.Fam, "offset": c.Off, "data_hex": mon.Hex(c.raw)})
		}
	}
	shards := r.Pick(8, 12)
	var wg sync.WaitGroup
	for s := 0; s < shards; s++ {
		var part []*hcase
		for i := s; i < len(g.cases); i += shards {
			part = append(part, g.cases[i])
		}
		wg.Add(1)
		go func() { defer wg.Done(); runShard(part) }()
	}
	wg.Wait()
}

// dottedMsg: some label contains '.', so the library's dotted text form is ambiguous.
func dottedMsg(m *RMsg) bool {
	d := func(n Name) bool {
		for _, l := range n {
			if bytes.IndexByte(l, '.') >= 0 {
				return true
			}
		}
		return false
	}
	for _, q := range m.Q {
		if d(q.Name) {
			return true
		}
	}
	for _, s := range [][]RRR{m.An, m.Ns, m.Ar} {
		for _, x := range s {
			if d(x.Name) {
				return true
			}
		}
	}
	return false
}
