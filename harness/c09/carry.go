// State-carry-over and aliasing monitors of C09: what a call returned must stay what it was
// while later calls run (held outputs, held decoded values), a decoded value must not depend
// on the caller's input buffer after the call, the encoder must derive every length / count
// from the current fields, and concurrent callers get the single-caller values.
package main

import (
	"bytes"
	"encoding/binary"
	"fmt"
	"math/rand/v2"
	"sync"

	"github.com/TheManticoreProject/Manticore/network/llmnr"

	"verif/mon"
)

// ---------- (a) held outputs ----------

// heldRing keeps the last n slices an encoder returned (the slices themselves, not copies)
// beside a private copy, re-compares all of them whenever a new one arrives and at the end.
// An output that leaves the ring is overwritten with 0x55: the caller owns it, so nothing the
// library returns later may depend on it.
type heldRing struct {
	mu   sync.Mutex
	n    int
	live [][]byte
	priv [][]byte
}

func (h *heldRing) changed() int {
	c := 0
	for i := range h.live {
		if !bytes.Equal(h.live[i], h.priv[i]) {
			c++
			h.priv[i] = append([]byte(nil), h.live[i]...)
		}
	}
	return c
}

func (h *heldRing) hold(out []byte) int {
	h.mu.Lock()
	defer h.mu.Unlock()
	c := h.changed()
	if len(h.live) >= h.n {
		old := h.live[0]
		for i := range old {
			old[i] = 0x55
		}
		h.live, h.priv = h.live[1:], h.priv[1:]
	}
	h.live = append(h.live, out)
	h.priv = append(h.priv, append([]byte(nil), out...))
	return c
}

var (
	ringsMu sync.Mutex
	rings   = map[string]*heldRing{}
	ringSeq []string
)

func ringOf(entry string) *heldRing {
	ringsMu.Lock()
	defer ringsMu.Unlock()
	h := rings[entry]
	if h == nil {
		h = &heldRing{n: 64}
		rings[entry] = h
		ringSeq = append(ringSeq, entry)
	}
	return h
}

// hold registers one encoder output. cs describes the call that has just been made (the one
// during which an earlier output changed).
func hold(entry string, out []byte, cs func() map[string]any) {
	if out == nil {
		return
	}
	if c := ringOf(entry).hold(out); c > 0 {
		r.Violation(entry+":held-output-changed", fmt.Sprintf("%d byte slice(s) returned by earlier %s calls changed while a later call ran (output aliases a reused buffer)", c, entry), cs())
	}
	r.Count("held_outputs", 1)
}

func heldFinal() {
	ringsMu.Lock()
	defer ringsMu.Unlock()
	for _, e := range ringSeq {
		h := rings[e]
		h.mu.Lock()
		c := h.changed()
		h.mu.Unlock()
		if c > 0 {
			r.Violation(e+":held-output-changed", fmt.Sprintf("%d held outputs of %s differ from their copies at the end of the run", c, e), map[string]any{"phase": "final"})
		}
	}
	heldMsgs.final()
}

// ---------- held decoded values ----------

type heldMsg struct {
	m    *RMsg
	g    *llmnr.Message
	encs []NameEnc
}

type msgRing struct {
	mu  sync.Mutex
	buf []heldMsg
}

var heldMsgs msgRing

func (h *msgRing) recheck(cs func() map[string]any) {
	for i := range h.buf {
		if h.buf[i].g == nil {
			continue
		}
		if k, d := diffLib(h.buf[i].m, h.buf[i].g, h.buf[i].encs); k != "" {
			r.Violation("DecodeMessage:held-result-changed", "a message decoded earlier changed while later calls ran: "+k+" "+d, cs())
			h.buf[i].g = nil
		}
	}
}

// keep stores a decoded message that agreed with its model; all kept ones are compared with
// their models again.
func (h *msgRing) keep(m *RMsg, g *llmnr.Message, encs []NameEnc, cs func() map[string]any) {
	h.mu.Lock()
	defer h.mu.Unlock()
	h.recheck(cs)
	if len(h.buf) >= 32 {
		h.buf = h.buf[1:]
	}
	h.buf = append(h.buf, heldMsg{m, g, encs})
}

func (h *msgRing) final() {
	h.mu.Lock()
	defer h.mu.Unlock()
	h.recheck(func() map[string]any { return map[string]any{"phase": "final"} })
}

// ---------- (b) input scribble ----------

func scribble(b []byte, v byte) {
	for i := range b {
		b[i] = v
	}
}

// afterDecode is called with the buffer that was handed to DecodeMessage (a private copy the
// caller may destroy) once g agreed with m. The buffer is overwritten; g must not change.
// Then g's RDATA is overwritten and the buffer must not change.
func afterDecode(m *RMsg, g *llmnr.Message, in []byte, encs []NameEnc, cs func() map[string]any) {
	scribble(in, 0xAA)
	if k, d := diffLib(m, g, encs); k != "" {
		r.Violation("DecodeMessage:input-scribble:"+k, "the decoded message changed when the caller overwrote the input buffer after DecodeMessage returned: "+d, cs())
		return
	}
	heldMsgs.keep(m, g, encs, cs)
}

// ---------- record / question level ----------

func rrWire(x RRR) []byte {
	b := x.Name.Wire()
	b = binary.BigEndian.AppendUint16(b, x.Type)
	b = binary.BigEndian.AppendUint16(b, x.Class)
	b = binary.BigEndian.AppendUint32(b, x.TTL)
	b = binary.BigEndian.AppendUint16(b, uint16(len(x.RData)))
	return append(b, x.RData...)
}

func qWire(q RQ) []byte {
	b := q.Name.Wire()
	b = binary.BigEndian.AppendUint16(b, q.Type)
	return binary.BigEndian.AppendUint16(b, q.Class)
}

// staleLens are wrong RDLength values for a record with n bytes of RDATA.
func staleLens(n int) []uint16 {
	var out []uint16
	for _, v := range []int{1, 2, 4, n - 1, n + 1, 2*n + 3, 200, 0x0100, 0xFFFF} {
		if v > 0 && v <= 0xFFFF && v != n {
			dup := false
			for _, o := range out {
				dup = dup || int(o) == v
			}
			if !dup {
				out = append(out, uint16(v))
			}
		}
	}
	return out
}

func rrCase(x RRR, extra map[string]any) map[string]any {
	c := map[string]any{"name_wire_hex": mon.FullHex(x.Name.Wire()), "type": x.Type, "class": x.Class, "ttl": x.TTL, "rdata_len": len(x.RData)}
	if len(x.RData) <= 600 {
		c["rdata_hex"] = mon.FullHex(x.RData)
	}
	for k, v := range extra {
		c[k] = v
	}
	return c
}

func recordLevel(x RRR, full bool) {
	want := rrWire(x)
	lens := []uint16{uint16(len(x.RData)), 0}
	if full {
		lens = append(lens, staleLens(len(x.RData))...)
	} else {
		lens = append(lens, staleLens(len(x.RData))[:2]...)
	}
	for _, l := range lens {
		rr := toLibRR(x, "")
		rr.RDLength = l
		var got []byte
		var err error
		cs := func() map[string]any { return rrCase(x, map[string]any{"rdlength_field": l}) }
		p, v, st := mon.Guard(func() { got, err = llmnr.EncodeResourceRecord(rr) })
		r.Eval(1)
		cls := "bytes"
		if int(l) != len(x.RData) {
			cls = "stale-rdlength"
			if l == 0 {
				cls = "zero-rdlength"
			}
		}
		switch {
		case p:
			r.Violation("EncodeResourceRecord:panic:"+mon.PanicClass(v), fmt.Sprintf("panic %v at %s", v, mon.TopLibFrame(st)), cs())
			continue
		case err != nil:
			r.Violation("EncodeResourceRecord:error-on-valid-record", fmt.Sprintf("EncodeResourceRecord = %v", err), cs())
			continue
		case !bytes.Equal(got, want):
			r.Violation("EncodeResourceRecord:"+cls, fmt.Sprintf("RDLength field %d, len(RData) %d: encoder wrote %d bytes, RFC 1035 form has %d (RDLENGTH on the wire must be len(RData))", l, len(x.RData), len(got), len(want)), cs())
			continue
		}
		if !bytes.Equal(rr.RData, x.RData) {
			r.Violation("EncodeResourceRecord:mutates-input", "RData of the caller's record changed during EncodeResourceRecord", cs())
		}
		hold("EncodeResourceRecord", got, cs)
	}
	// decode at a non-zero offset of a private buffer, then destroy the buffer
	for _, pre := range []int{0, 7} {
		in := append(bytes.Repeat([]byte{0x00}, pre), want...)
		in = append(in, 0xC0, 0x00)
		var rr llmnr.ResourceRecord
		var end int
		var err error
		cs := func() map[string]any { return rrCase(x, map[string]any{"offset": pre}) }
		p, v, st := mon.Guard(func() { rr, end, err = llmnr.DecodeResourceRecord(in, pre) })
		r.Eval(1)
		chk := func() string {
			switch {
			case !sameNameText(rr.Name, x.Name):
				return "name"
			case rr.Type != x.Type:
				return "type"
			case rr.Class != x.Class:
				return "class"
			case rr.TTL != x.TTL:
				return "ttl"
			case int(rr.RDLength) != len(x.RData):
				return "rdlength"
			case !bytes.Equal(rr.RData, x.RData):
				return "rdata"
			}
			return ""
		}
		switch {
		case p:
			r.Violation("DecodeResourceRecord:panic:"+mon.PanicClass(v), fmt.Sprintf("panic %v at %s", v, mon.TopLibFrame(st)), cs())
			continue
		case err != nil:
			r.Violation("DecodeResourceRecord:rejects-valid", fmt.Sprintf("DecodeResourceRecord = %v on a valid record", err), cs())
			continue
		case end != pre+len(want):
			r.Violation("DecodeResourceRecord:offset", fmt.Sprintf("new offset %d want %d", end, pre+len(want)), cs())
			continue
		}
		if k := chk(); k != "" {
			r.Violation("DecodeResourceRecord:value:"+k, "decoded record differs in "+k, cs())
			continue
		}
		scribble(in, 0xAA)
		if k := chk(); k != "" {
			r.Violation("DecodeResourceRecord:input-scribble:"+k, "the decoded record changed in "+k+" when the caller overwrote the input buffer after the call", cs())
			continue
		}
		// the other direction: writing into the result must not write into the input
		scribble(rr.RData, 0x11)
		if bytes.IndexByte(in, 0x11) >= 0 {
			r.Violation("DecodeResourceRecord:result-writes-through-to-input", "writing into the decoded RData changed the caller's input buffer", cs())
		}
	}
}

func questionLevel(q RQ) {
	want := qWire(q)
	cs := func() map[string]any {
		return map[string]any{"name_wire_hex": mon.FullHex(q.Name.Wire()), "type": q.Type, "class": q.Class}
	}
	var got []byte
	var err error
	p, v, st := mon.Guard(func() {
		got, err = llmnr.EncodeQuestion(llmnr.Question{Name: libText(q.Name, ""), Type: q.Type, Class: q.Class})
	})
	r.Eval(1)
	switch {
	case p:
		r.Violation("EncodeQuestion:panic:"+mon.PanicClass(v), fmt.Sprintf("panic %v at %s", v, mon.TopLibFrame(st)), cs())
	case err != nil:
		r.Violation("EncodeQuestion:error-on-valid-question", fmt.Sprintf("EncodeQuestion = %v", err), cs())
	case !bytes.Equal(got, want):
		r.Violation("EncodeQuestion:bytes", fmt.Sprintf("got %x want %x", got, want), cs())
	default:
		hold("EncodeQuestion", got, cs)
	}
	in := append([]byte{0, 0, 0}, want...)
	var x llmnr.Question
	var end int
	p, v, st = mon.Guard(func() { x, end, err = llmnr.DecodeQuestion(in, 3) })
	r.Eval(1)
	ok := func() bool { return sameNameText(x.Name, q.Name) && x.Type == q.Type && x.Class == q.Class }
	switch {
	case p:
		r.Violation("DecodeQuestion:panic:"+mon.PanicClass(v), fmt.Sprintf("panic %v at %s", v, mon.TopLibFrame(st)), cs())
	case err != nil:
		r.Violation("DecodeQuestion:rejects-valid", fmt.Sprintf("DecodeQuestion = %v", err), cs())
	case end != len(in) || !ok():
		r.Violation("DecodeQuestion:value", fmt.Sprintf("got %+v end %d", x, end), cs())
	default:
		scribble(in, 0xAA)
		if !ok() {
			r.Violation("DecodeQuestion:input-scribble", "the decoded question changed when the caller overwrote the input buffer after the call", cs())
		}
	}
}

// ---------- (d) stale derived fields ----------

func cloneMsg(m *RMsg) *RMsg {
	c := &RMsg{ID: m.ID, Flags: m.Flags}
	for _, q := range m.Q {
		c.Q = append(c.Q, RQ{cloneName(q.Name), q.Type, q.Class})
	}
	cp := func(s []RRR) []RRR {
		var o []RRR
		for _, x := range s {
			o = append(o, RRR{cloneName(x.Name), x.Type, x.Class, x.TTL, append([]byte(nil), x.RData...)})
		}
		return o
	}
	c.An, c.Ns, c.Ar = cp(m.An), cp(m.Ns), cp(m.Ar)
	return c
}

func libSections(g *llmnr.Message) []*[]llmnr.ResourceRecord {
	return []*[]llmnr.ResourceRecord{&g.Answers, &g.Authority, &g.Additional}
}

// encodeExpect encodes g and demands the uncompressed RFC 1035 form of m.
func encodeExpect(g *llmnr.Message, m *RMsg, key, what string, extra map[string]any) bool {
	want, _ := m.Pack(Comp{})
	var got []byte
	var err error
	cs := func() map[string]any { return msgCase(m, got, extra) }
	p, v, st := mon.Guard(func() { got, err = g.Encode() })
	r.Eval(1)
	switch {
	case p:
		r.Violation("Message.Encode:panic:"+mon.PanicClass(v), fmt.Sprintf("panic %v at %s (%s)", v, mon.TopLibFrame(st), what), cs())
		return false
	case err != nil:
		r.Violation(key+":error", fmt.Sprintf("%s: Encode = %v", what, err), cs())
		return false
	case !bytes.Equal(got, want):
		d := "same length"
		if ref, _, rerr := Unpack(got); rerr != nil {
			d = "reference reader: " + rerr.Error()
		} else if k, dd := diffRef(m, ref); k != "" {
			d = "reference reader sees " + k + ": " + dd
		}
		r.Violation(key, fmt.Sprintf("%s: the bytes are not the encoding of the message's current fields (%d bytes, want %d; %s)", what, len(got), len(want), d), cs())
		return false
	}
	hold("Message.Encode", got, cs)
	return true
}

// staleFields: derived fields of the struct hold values that disagree with the content.
func staleFields(m *RMsg, rng *rand.Rand) {
	nrec := len(m.An) + len(m.Ns) + len(m.Ar)
	// every record's RDLength is wrong in the same way
	for vi, f := range []func(n int) int{
		func(n int) int { return n + 1 },
		func(n int) int {
			if n == 1 {
				return 2
			}
			return 1
		},
		func(n int) int { return 2*n + 11 },
		func(n int) int { return 0xFFFF - n%2 },
	} {
		if nrec == 0 {
			break
		}
		g := toLib(m, "", true)
		for _, s := range libSections(g) {
			for i := range *s {
				(*s)[i].RDLength = uint16(f(len((*s)[i].RData)))
			}
		}
		encodeExpect(g, m, "Message.Encode:stale-rdlength", "every RDLength field disagrees with len(RData)", map[string]any{"variant": vi})
	}
	// one record stale (seeded), the others consistent
	if nrec > 0 {
		g := toLib(m, "", true)
		k := rng.IntN(nrec)
		for _, s := range libSections(g) {
			if k < len(*s) {
				ls := staleLens(len((*s)[k].RData))
				(*s)[k].RDLength = ls[rng.IntN(len(ls))]
				break
			}
			k -= len(*s)
		}
		encodeExpect(g, m, "Message.Encode:stale-rdlength", "one RDLength field disagrees with len(RData)", nil)
	}
	// header counts that disagree with the sections
	for vi, d := range []int{1, -1, 0x100} {
		g := toLib(m, "", true)
		g.QDCount, g.ANCount, g.NSCount, g.ARCount = uint16(len(m.Q)+d), uint16(len(m.An)+d), uint16(len(m.Ns)+d), uint16(len(m.Ar)+d)
		if encodeExpect(g, m, "Message.Encode:stale-header-counts", "header counts disagree with the section lengths", map[string]any{"variant": vi}) {
			if int(g.QDCount) != len(m.Q) || int(g.ANCount) != len(m.An) || int(g.NSCount) != len(m.Ns) || int(g.ARCount) != len(m.Ar) {
				r.Violation("Message.Encode:header-counts-not-recomputed", "stale counts stay in the struct after Encode", msgCase(m, nil, nil))
			}
		}
	}
}

// editAfterDecode: decode -> replace RDATA of decoded records by data of another length ->
// encode. The decoder stored the old lengths in RDLength; the encoder must not use them.
func editAfterDecode(m *RMsg, rng *rand.Rand, c Comp) {
	wire, _ := m.Pack(c)
	var g *llmnr.Message
	var err error
	p, _, _ := mon.Guard(func() { g, err = llmnr.DecodeMessage(append([]byte(nil), wire...)) })
	r.Eval(1)
	if p || err != nil {
		return // reported by reverse()
	}
	if k, _ := diffLib(m, g, nil); k != "" {
		return
	}
	m2 := cloneMsg(m)
	ms := []*[]RRR{&m2.An, &m2.Ns, &m2.Ar}
	edits := 0
	for si, s := range libSections(g) {
		for i := range *s {
			old := len((*s)[i].RData)
			var n int
			switch rng.IntN(4) {
			case 0:
				continue
			case 1: // big then small
				n = old / 2
				if n == old {
					n = old + 4
				}
			case 2: // small then big
				n = old + 1 + rng.IntN(20)
			default:
				n = rng.IntN(24)
				if n == old {
					n++
				}
			}
			rd := genBytes(rng, n)
			(*s)[i].RData = rd
			(*ms[si])[i].RData = append([]byte(nil), rd...)
			edits++
		}
	}
	// a record appended / removed after decoding: counts are stale as well
	switch rng.IntN(3) {
	case 0:
		x := RRR{Name{[]byte("added"), []byte("local")}, 1, 1, 30, []byte{10, 0, 0, byte(rng.IntN(256))}}
		g.Answers = append(g.Answers, toLibRR(x, ""))
		m2.An = append(m2.An, x)
		edits++
	case 1:
		if len(g.Additional) > 0 {
			g.Additional = g.Additional[:len(g.Additional)-1]
			m2.Ar = m2.Ar[:len(m2.Ar)-1]
			edits++
		}
	}
	if edits == 0 {
		return
	}
	if !encodeExpect(g, m2, "Message.Encode:stale-after-edit-of-decoded", "RDATA of decoded records replaced (other lengths), then Encode", map[string]any{"edits": edits}) {
		return
	}
	// and the library reads it back as the edited message
	out, _ := m2.Pack(Comp{})
	back, derr := llmnr.DecodeMessage(out)
	r.Eval(1)
	if derr == nil {
		if k, d := diffLib(m2, back, nil); k != "" {
			r.Violation("roundtrip-after-edit:"+k, "decode(encode(edited decoded message)) differs: "+d, msgCase(m2, out, nil))
		}
	}
	// the same struct edited once more and encoded again: nothing may be memoised
	g.ID ^= 0x5A5A
	m2.ID ^= 0x5A5A
	if len(g.Questions) > 0 {
		g.Questions[0].Type ^= 0x0101
		m2.Q[0].Type ^= 0x0101
	}
	encodeExpect(g, m2, "Message.Encode:stale-after-field-change", "fields changed between two Encode calls on the same struct", nil)
	r.Nontrivial("edit|" + fp(out))
}

// ---------- (e) concurrent callers ----------

type ccase struct {
	m    *RMsg
	want []byte // uncompressed form
	comp []byte // compressed form
	encs []NameEnc
}

func smallMsg(rng *rand.Rand) *RMsg {
	for {
		m := genMsg(rng, 1+rng.IntN(2), rng.IntN(3), rng.IntN(2), rng.IntN(2), false)
		if w, _ := m.Pack(Comp{}); len(w) <= 500 && valid(m) {
			return m
		}
	}
}

// sharedInputs: one received packet (a byte slice nobody writes to) decoded by several goroutines
// at once: decoding reads its input. (Encoding is not the mirror case: Message.Encode stores the
// section counts in the message, so one message is not encoded by two goroutines at once.)
func sharedInputs() {
	const G = 8
	rng := r.Rand("shared-inputs")
	for run := 0; run < r.Pick(80, 800); run++ {
		m := smallMsg(rng)
		comp, encs := m.Pack(Comp{On: true, Prob: 1})
		pristine := append([]byte(nil), comp...)
		var wg sync.WaitGroup
		start := make(chan struct{})
		for g := 0; g < G; g++ {
			wg.Add(1)
			go func(g int) {
				defer wg.Done()
				<-start
				for i := 0; i < 4; i++ {
					var dm *llmnr.Message
					var err error
					p, v, st := mon.Guard(func() { dm, err = llmnr.DecodeMessage(comp) })
					switch {
					case p:
						r.Violation("DecodeMessage:shared-input:panic:"+mon.PanicClass(v), fmt.Sprintf("panic %v at %s (8 goroutines decoding one packet)", v, mon.TopLibFrame(st)), msgCase(m, pristine, nil))
					case err != nil:
						r.Violation("DecodeMessage:shared-input", fmt.Sprintf("8 goroutines decoding the same packet: DecodeMessage fails: %v", err), msgCase(m, pristine, nil))
					default:
						if k, d := diffLib(m, dm, encs); k != "" {
							r.Violation("DecodeMessage:shared-input", "8 goroutines decoding the same packet: the result differs: "+k+" "+d, msgCase(m, pristine, nil))
						}
					}
					if len(m.Q) > 0 {
						if name, _, nerr := llmnr.DecodeDomainName(comp, 12); nerr != nil || !sameNameText(name, m.Q[0].Name) {
							r.Violation("DecodeDomainName:shared-input", fmt.Sprintf("8 goroutines decoding the same packet: first name reads %q (err=%v)", name, nerr), msgCase(m, pristine, nil))
						}
					}
				}
			}(g)
		}
		close(start)
		wg.Wait()
		r.Eval(G * 4 * 2)
		if !bytes.Equal(comp, pristine) {
			r.Violation("DecodeMessage:shared-input:input-modified", "the packet handed to the decoders was written to", msgCase(m, pristine, nil))
		}
		r.Nontrivial(fmt.Sprintf("shared-input|%d", run%40))
	}
}

func concurrent() {
	sharedInputs()
	const G = 8
	per := r.Pick(60, 400)
	rounds := r.Pick(6, 20)
	rng := r.Rand("concurrent")
	sets := make([][]ccase, G)
	for g := range sets {
		for i := 0; i < per; i++ {
			m := smallMsg(rng)
			w, _ := m.Pack(Comp{})
			c, encs := m.Pack(Comp{On: true, Prob: 1})
			sets[g] = append(sets[g], ccase{m, w, c, encs})
		}
	}
	var wg sync.WaitGroup
	for g := 0; g < G; g++ {
		wg.Add(1)
		go func(cases []ccase) {
			defer wg.Done()
			type kept struct {
				out []byte
				c   *ccase
			}
			var last []kept
			for round := 0; round < rounds; round++ {
				for i := range cases {
					c := &cases[i]
					lm := toLib(c.m, "", round%2 == 0)
					var out []byte
					var err error
					p, v, st := mon.Guard(func() { out, err = lm.Encode() })
					r.Eval(1)
					if p {
						r.Violation("Message.Encode:panic:"+mon.PanicClass(v), fmt.Sprintf("panic %v at %s (8 concurrent callers)", v, mon.TopLibFrame(st)), msgCase(c.m, nil, nil))
						continue
					}
					if err != nil || !bytes.Equal(out, c.want) {
						r.Violation("Message.Encode:concurrent-callers", fmt.Sprintf("with 8 goroutines encoding unrelated messages Encode gives other bytes than alone (err=%v)", err), msgCase(c.m, out, nil))
					}
					last = append(last, kept{out, c})
					if len(last) > 16 {
						last = last[1:]
					}
					for _, k := range last {
						if !bytes.Equal(k.out, k.c.want) {
							r.Violation("Message.Encode:held-output-changed:concurrent-callers", "bytes returned by an earlier Encode of this goroutine changed while 8 goroutines encode unrelated messages", msgCase(k.c.m, k.out, nil))
							k.c.want = append([]byte(nil), k.out...) // report once
						}
					}
					in := append([]byte(nil), c.comp...)
					var dm *llmnr.Message
					p, v, st = mon.Guard(func() { dm, err = llmnr.DecodeMessage(in) })
					r.Eval(1)
					if p {
						r.Violation("DecodeMessage:panic:"+mon.PanicClass(v), fmt.Sprintf("panic %v at %s (8 concurrent callers)", v, mon.TopLibFrame(st)), msgCase(c.m, c.comp, nil))
						continue
					}
					if err != nil {
						r.Violation("DecodeMessage:concurrent-callers", fmt.Sprintf("with 8 goroutines decoding unrelated messages DecodeMessage fails: %v", err), msgCase(c.m, c.comp, nil))
					} else if k, d := diffLib(c.m, dm, c.encs); k != "" {
						r.Violation("DecodeMessage:concurrent-callers", "with 8 goroutines decoding unrelated messages the result differs: "+k+" "+d, msgCase(c.m, c.comp, nil))
					}
					// name level
					if len(c.m.Q) > 0 {
						n := c.m.Q[0].Name
						nb, nerr := llmnr.EncodeDomainName(libText(n, ""))
						r.Eval(1)
						if nerr != nil || !bytes.Equal(nb, n.Wire()) {
							r.Violation("EncodeDomainName:concurrent-callers", fmt.Sprintf("with 8 concurrent callers EncodeDomainName gives other bytes than alone (err=%v)", nerr), map[string]any{"wire_hex": mon.FullHex(n.Wire())})
						}
					}
				}
			}
		}(sets[g])
	}
	wg.Wait()
	r.Count("concurrent_cases", G*per*rounds)
}

// ---------- the phase ----------

func carryOver(bm []*RMsg) {
	rng := r.Rand("carry")
	// small messages first: two consecutive encodings must both fit a 512-byte packet for a
	// pooled MaxPacketSize buffer to be shared between them
	var small []*RMsg
	host := Name{[]byte("host"), []byte("local")}
	for i := 0; i < 24; i++ {
		m := &RMsg{ID: uint16(0x2000 + i), Flags: flagWords[i%len(flagWords)], Q: []RQ{{host, 1, 1}}}
		for j := 0; j < i%4; j++ {
			m.An = append(m.An, RRR{host, 1, 1, 30, []byte{10, 0, byte(i), byte(j)}})
		}
		if i%5 == 0 {
			m.Ar = append(m.Ar, RRR{Name{[]byte("other"), []byte("local")}, 28, 1, 120, bytes.Repeat([]byte{byte(i)}, 16)})
		}
		small = append(small, m)
	}
	for i := 0; i < r.Pick(1500, 20000); i++ {
		small = append(small, smallMsg(rng))
	}
	for _, m := range small {
		forward(m, "", true)
		reverse(m, Comp{On: true, Prob: 1}, "suffix")
	}
	// stale derived fields: boundary messages (capped RDATA) and the small ones
	var pool []*RMsg
	for _, m := range bm {
		if w, _ := m.Pack(Comp{}); len(w) <= 8192 {
			pool = append(pool, m)
		}
	}
	pool = append(pool, small...)
	for i, m := range pool {
		staleFields(m, rng)
		editAfterDecode(m, rng, Comp{})
		editAfterDecode(m, rng, Comp{On: true, Prob: 1})
		for _, q := range m.Q {
			questionLevel(q)
		}
		for _, s := range [][]RRR{m.An, m.Ns, m.Ar} {
			for _, x := range s {
				recordLevel(x, i%8 == 0)
			}
		}
	}
	// records with boundary RDATA lengths
	for _, n := range rdLens {
		rd := bytes.Repeat([]byte{0x5A}, n)
		recordLevel(RRR{host, 16, 1, 0xFFFFFFFF, rd}, true)
		recordLevel(RRR{Name{}, 1, 1, 0, rd}, true)
	}
	concurrent()
}
