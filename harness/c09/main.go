// C09: the LLMNR codec round-trips and agrees with an independent RFC 1035 codec;
// non-backward compression pointers are rejected and decoding terminates.
package main

import (
	"bytes"
	"crypto/sha256"
	"encoding/hex"
	"fmt"
	"net/netip"
	"os"

	"github.com/TheManticoreProject/Manticore/network/llmnr"

	"verif/mon"
)

var r *mon.Run

// ---------- model <-> library ----------

func toLibRR(x RRR, root string) llmnr.ResourceRecord {
	return llmnr.ResourceRecord{Name: libText(x.Name, root), Type: x.Type, Class: x.Class, TTL: x.TTL, RDLength: uint16(len(x.RData)), RData: append([]byte(nil), x.RData...)}
}

func libText(n Name, root string) string {
	if len(n) == 0 {
		return root
	}
	return n.Text()
}

// toLib builds the library's message. root is the text used for the root name ("" or ".").
// withCounts=false leaves the header counts zero (Encode must recompute them).
func toLib(m *RMsg, root string, withCounts bool) *llmnr.Message {
	g := &llmnr.Message{}
	g.ID, g.Flags = m.ID, m.Flags
	for _, q := range m.Q {
		g.Questions = append(g.Questions, llmnr.Question{Name: libText(q.Name, root), Type: q.Type, Class: q.Class})
	}
	for _, x := range m.An {
		g.Answers = append(g.Answers, toLibRR(x, root))
	}
	for _, x := range m.Ns {
		g.Authority = append(g.Authority, toLibRR(x, root))
	}
	for _, x := range m.Ar {
		g.Additional = append(g.Additional, toLibRR(x, root))
	}
	if withCounts {
		g.QDCount, g.ANCount, g.NSCount, g.ARCount = uint16(len(m.Q)), uint16(len(m.An)), uint16(len(m.Ns)), uint16(len(m.Ar))
	}
	return g
}

func sameNameText(lib string, n Name) bool {
	if len(n) == 0 {
		return lib == "" || lib == "."
	}
	return lib == n.Text()
}

// nameTag classifies the i-th name of a message for violation keys.
func nameTag(n Name, encs []NameEnc, idx int) string {
	if idx < len(encs) && encs[idx].Ptr {
		if encs[idx].ToRoot {
			return ":ptr-to-root"
		}
		return ":ptr"
	}
	if len(n) == 0 {
		return ":root"
	}
	return ""
}

// diffLib returns the first difference between the model and a library message ("" if none).
func diffLib(m *RMsg, g *llmnr.Message, encs []NameEnc) (string, string) {
	if g.ID != m.ID {
		return "header:id", fmt.Sprintf("got %#04x want %#04x", g.ID, m.ID)
	}
	if g.Flags != m.Flags {
		return "header:flags", fmt.Sprintf("got %#04x want %#04x", g.Flags, m.Flags)
	}
	want := []int{len(m.Q), len(m.An), len(m.Ns), len(m.Ar)}
	got := []uint16{g.QDCount, g.ANCount, g.NSCount, g.ARCount}
	hn := []string{"qdcount", "ancount", "nscount", "arcount"}
	for i := range want {
		if int(got[i]) != want[i] {
			return "header:" + hn[i], fmt.Sprintf("got %d want %d", got[i], want[i])
		}
	}
	idx := 0
	if len(g.Questions) != len(m.Q) {
		return "question:count", fmt.Sprintf("got %d want %d", len(g.Questions), len(m.Q))
	}
	for i, q := range m.Q {
		x := g.Questions[i]
		if !sameNameText(x.Name, q.Name) {
			return "question:name" + nameTag(q.Name, encs, idx), fmt.Sprintf("question %d name got %q want %q", i, x.Name, q.Name.Text())
		}
		if x.Type != q.Type {
			return "question:type", fmt.Sprintf("question %d type got %d want %d", i, x.Type, q.Type)
		}
		if x.Class != q.Class {
			return "question:class", fmt.Sprintf("question %d class got %d want %d", i, x.Class, q.Class)
		}
		idx++
	}
	ms := [][]RRR{m.An, m.Ns, m.Ar}
	gs := [][]llmnr.ResourceRecord{g.Answers, g.Authority, g.Additional}
	for s := range ms {
		sn := secName[1+s]
		if len(gs[s]) != len(ms[s]) {
			return sn + ":count", fmt.Sprintf("got %d records want %d", len(gs[s]), len(ms[s]))
		}
		for i, w := range ms[s] {
			x := gs[s][i]
			switch {
			case !sameNameText(x.Name, w.Name):
				return sn + ":name" + nameTag(w.Name, encs, idx), fmt.Sprintf("%s %d name got %q want %q", sn, i, x.Name, w.Name.Text())
			case x.Type != w.Type:
				return sn + ":type", fmt.Sprintf("%s %d type got %d want %d", sn, i, x.Type, w.Type)
			case x.Class != w.Class:
				return sn + ":class", fmt.Sprintf("%s %d class got %d want %d", sn, i, x.Class, w.Class)
			case x.TTL != w.TTL:
				return sn + ":ttl", fmt.Sprintf("%s %d ttl got %d want %d", sn, i, x.TTL, w.TTL)
			case int(x.RDLength) != len(w.RData):
				return sn + ":rdlength", fmt.Sprintf("%s %d rdlength got %d want %d", sn, i, x.RDLength, len(w.RData))
			case !bytes.Equal(x.RData, w.RData):
				return sn + ":rdata", fmt.Sprintf("%s %d rdata differs (len got %d want %d)", sn, i, len(x.RData), len(w.RData))
			}
			idx++
		}
	}
	return "", ""
}

func sameName(a, b Name) bool {
	if len(a) != len(b) {
		return false
	}
	for i := range a {
		if !bytes.Equal(a[i], b[i]) {
			return false
		}
	}
	return true
}

// diffRef compares two reference messages.
func diffRef(m, g *RMsg) (string, string) {
	if g.ID != m.ID {
		return "header:id", fmt.Sprintf("got %#04x want %#04x", g.ID, m.ID)
	}
	if g.Flags != m.Flags {
		return "header:flags", fmt.Sprintf("got %#04x want %#04x", g.Flags, m.Flags)
	}
	if len(g.Q) != len(m.Q) {
		return "question:count", fmt.Sprintf("got %d want %d", len(g.Q), len(m.Q))
	}
	for i, q := range m.Q {
		x := g.Q[i]
		tag := ""
		if len(q.Name) == 0 {
			tag = ":root"
		}
		switch {
		case !sameName(x.Name, q.Name):
			return "question:name" + tag, fmt.Sprintf("question %d name got %q want %q", i, x.Name.Text(), q.Name.Text())
		case x.Type != q.Type:
			return "question:type", fmt.Sprintf("question %d type got %d want %d", i, x.Type, q.Type)
		case x.Class != q.Class:
			return "question:class", fmt.Sprintf("question %d class got %d want %d", i, x.Class, q.Class)
		}
	}
	ms := [][]RRR{m.An, m.Ns, m.Ar}
	gs := [][]RRR{g.An, g.Ns, g.Ar}
	for s := range ms {
		sn := secName[1+s]
		if len(gs[s]) != len(ms[s]) {
			return sn + ":count", fmt.Sprintf("got %d records want %d", len(gs[s]), len(ms[s]))
		}
		for i, w := range ms[s] {
			x := gs[s][i]
			tag := ""
			if len(w.Name) == 0 {
				tag = ":root"
			}
			switch {
			case !sameName(x.Name, w.Name):
				return sn + ":name" + tag, fmt.Sprintf("%s %d name got %q want %q", sn, i, x.Name.Text(), w.Name.Text())
			case x.Type != w.Type:
				return sn + ":type", fmt.Sprintf("%s %d type got %d want %d", sn, i, x.Type, w.Type)
			case x.Class != w.Class:
				return sn + ":class", fmt.Sprintf("%s %d class got %d want %d", sn, i, x.Class, w.Class)
			case x.TTL != w.TTL:
				return sn + ":ttl", fmt.Sprintf("%s %d ttl got %d want %d", sn, i, x.TTL, w.TTL)
			case !bytes.Equal(x.RData, w.RData):
				return sn + ":rdata", fmt.Sprintf("%s %d rdata differs (len got %d want %d)", sn, i, len(x.RData), len(w.RData))
			}
		}
	}
	return "", ""
}

func fp(parts ...[]byte) string {
	h := sha256.New()
	for _, p := range parts {
		h.Write(p)
		h.Write([]byte{0xFE, 0x01})
	}
	return hex.EncodeToString(h.Sum(nil)[:10])
}

func msgCase(m *RMsg, wire []byte, extra map[string]any) map[string]any {
	c := map[string]any{"id": m.ID, "flags": m.Flags, "sections": []int{len(m.Q), len(m.An), len(m.Ns), len(m.Ar)}}
	var names []string
	for _, q := range m.Q {
		names = append(names, hex.EncodeToString(q.Name.Wire()))
	}
	for _, s := range [][]RRR{m.An, m.Ns, m.Ar} {
		for _, x := range s {
			names = append(names, hex.EncodeToString(x.Name.Wire()))
		}
	}
	if len(names) > 40 {
		names = names[:40]
	}
	c["names_wire_hex"] = names
	if wire != nil {
		if len(wire) > 4096 {
			c["wire_hex_head"] = mon.FullHex(wire[:4096])
			c["wire_len"] = len(wire)
		} else {
			c["wire_hex"] = mon.FullHex(wire)
		}
	}
	for k, v := range extra {
		c[k] = v
	}
	return c
}

func nontrivialMsg(m *RMsg, encs []NameEnc) bool {
	pop := 0
	for _, n := range []int{len(m.Q), len(m.An), len(m.Ns), len(m.Ar)} {
		if n > 0 {
			pop++
		}
	}
	for _, e := range encs {
		if e.Ptr {
			return true
		}
	}
	if pop >= 2 {
		return true
	}
	chk := func(n Name, rd []byte) bool {
		if n.WireLen() >= 254 || len(rd) >= 255 {
			return true
		}
		for _, l := range n {
			if len(l) >= 62 {
				return true
			}
		}
		return false
	}
	for _, q := range m.Q {
		if chk(q.Name, nil) {
			return true
		}
	}
	for _, s := range [][]RRR{m.An, m.Ns, m.Ar} {
		for _, x := range s {
			if chk(x.Name, x.RData) {
				return true
			}
		}
	}
	return false
}

// ---------- forward direction: library encodes ----------

// forward runs Encode on the library's form of m and judges the bytes with the
// reference reader and with the library's own decoder.
func forward(m *RMsg, root string, withCounts bool) {
	g := toLib(m, root, withCounts)
	var wire []byte
	var err error
	rootTag := ""
	if root == "." {
		for _, q := range m.Q {
			if len(q.Name) == 0 {
				rootTag = ":dot-root"
			}
		}
		for _, s := range [][]RRR{m.An, m.Ns, m.Ar} {
			for _, x := range s {
				if len(x.Name) == 0 {
					rootTag = ":dot-root"
				}
			}
		}
	}
	p, v, st := mon.Guard(func() { wire, err = g.Encode() })
	r.Eval(1)
	if p {
		r.Violation("Message.Encode:panic:"+mon.PanicClass(v), fmt.Sprintf("panic %v at %s", v, mon.TopLibFrame(st)), msgCase(m, nil, nil))
		return
	}
	if err != nil {
		r.Violation("Message.Encode:error-on-valid-message"+rootTag, fmt.Sprintf("Encode returned %v for a message whose names are all valid", err), msgCase(m, nil, nil))
		return
	}
	cs := func() map[string]any { return msgCase(m, wire, map[string]any{"root_text": root}) }
	hold("Message.Encode", wire, cs)
	if w2, err2 := g.Encode(); err2 != nil || !bytes.Equal(w2, wire) {
		r.Violation("Message.Encode:not-repeatable", fmt.Sprintf("a second Encode of the same message gives different bytes (err=%v)", err2), cs())
	} else {
		hold("Message.Encode", w2, cs)
	}
	r.Eval(1)
	// counts recomputed in the struct
	if int(g.QDCount) != len(m.Q) || int(g.ANCount) != len(m.An) || int(g.NSCount) != len(m.Ns) || int(g.ARCount) != len(m.Ar) {
		r.Violation("Message.Encode:header-counts-not-recomputed", fmt.Sprintf("after Encode counts are %d/%d/%d/%d for sections %d/%d/%d/%d", g.QDCount, g.ANCount, g.NSCount, g.ARCount, len(m.Q), len(m.An), len(m.Ns), len(m.Ar)), cs())
	}
	// (a) the independent reader
	ref, _, rerr := Unpack(wire)
	r.Eval(1)
	// a message that carries the root name written as "." gets one coarse key per path: once the
	// name is mis-encoded every later field is shifted, and which field differs first is accidental
	if rerr != nil {
		k := "unparseable:" + errClass(rerr)
		if rootTag != "" {
			k = "content"
		}
		r.Violation("Message.Encode~ref:"+k+rootTag, fmt.Sprintf("reference RFC 1035 reader cannot parse the library's bytes: %v", rerr), cs())
	} else if k, d := diffRef(m, ref); k != "" {
		if rootTag != "" {
			k = "content"
		}
		r.Violation("Message.Encode~ref:"+k+rootTag, "reference reader sees different content in the library's bytes: "+d, cs())
	}
	// the library never compresses: bytes must equal the reference writer's uncompressed form
	want, _ := m.Pack(Comp{})
	if rerr == nil && !bytes.Equal(wire, want) {
		r.Violation("Message.Encode~ref:bytes"+rootTag, "library bytes differ from the uncompressed RFC 1035 form although both parse", cs())
	}
	// (b) the library's own decoder
	var back *llmnr.Message
	p, v, st = mon.Guard(func() { back, err = llmnr.DecodeMessage(wire) })
	r.Eval(1)
	switch {
	case p:
		r.Violation("DecodeMessage:panic:"+mon.PanicClass(v), fmt.Sprintf("panic %v at %s on the library's own output", v, mon.TopLibFrame(st)), cs())
	case err != nil:
		r.Violation("roundtrip:decode-error"+rootTag, fmt.Sprintf("DecodeMessage(Encode(m)) fails: %v", err), cs())
	default:
		if k, d := diffLib(m, back, nil); k != "" {
			if rootTag != "" {
				k = "content"
			}
			r.Violation("roundtrip:"+k+rootTag, "DecodeMessage(Encode(m)) differs from m: "+d, cs())
		} else {
			// decoded message is self-consistent and re-encodes to the same bytes
			var verr error
			var again []byte
			p, v, st = mon.Guard(func() { verr = back.Validate(); again, err = back.Encode() })
			r.Eval(2)
			if p {
				r.Violation("Message.Validate:panic:"+mon.PanicClass(v), fmt.Sprintf("panic %v at %s", v, mon.TopLibFrame(st)), cs())
			} else {
				hold("Message.Encode", again, cs)
				if hasRoot(m) && (err != nil || !bytes.Equal(again, wire)) {
					rootTag = ":message-with-root-name"
				}
				if verr != nil {
					r.Violation("Message.Validate:rejects-decoded-valid-message", fmt.Sprintf("Validate()=%v on a correctly decoded valid message", verr), cs())
				}
				if err != nil || !bytes.Equal(again, wire) {
					r.Violation("roundtrip:reencode"+rootTag, fmt.Sprintf("Encode(DecodeMessage(b)) != b (err=%v)", err), cs())
				}
			}
		}
	}
	if nontrivialMsg(m, nil) {
		r.Nontrivial("fwd|" + fp(want, []byte(root)))
	}
}

// ---------- reverse direction: reference encodes (with compression) ----------

func reverse(m *RMsg, c Comp, tag string) {
	wire, encs := m.Pack(c)
	// the reference must read its own output, otherwise the oracle is broken
	self, _, err := Unpack(wire)
	if err != nil {
		r.Inconclusive(fmt.Sprintf("reference cannot read its own output (%s): %v", tag, err))
		return
	}
	if k, d := diffRef(m, self); k != "" {
		r.Inconclusive(fmt.Sprintf("reference round trip differs (%s): %s %s", tag, k, d))
		return
	}
	cs := func() map[string]any { return msgCase(m, wire, map[string]any{"writer": tag}) }
	var g *llmnr.Message
	if len(wire)%3 == 0 {
		provoke(wire) // the valid decode below follows refused ones
	}
	in := append([]byte(nil), wire...) // the caller's buffer: overwritten after the call
	p, v, st := mon.Guard(func() { g, err = llmnr.DecodeMessage(in) })
	r.Eval(1)
	ptrs, maxDepth := 0, 0
	for _, e := range encs {
		if e.Ptr {
			ptrs++
		}
		if e.Depth > maxDepth {
			maxDepth = e.Depth
		}
	}
	kind := "plain"
	if ptrs > 0 {
		kind = "compressed"
	}
	switch {
	case p:
		r.Violation("DecodeMessage:panic:"+mon.PanicClass(v), fmt.Sprintf("panic %v at %s on a valid %s message", v, mon.TopLibFrame(st), kind), cs())
		return
	case err != nil:
		r.Violation("DecodeMessage~ref:rejects-valid:"+kind, fmt.Sprintf("DecodeMessage fails on a valid RFC 1035 message (%d pointers, depth %d): %v", ptrs, maxDepth, err), cs())
		return
	}
	if k, d := diffLib(m, g, encs); k != "" {
		r.Violation("DecodeMessage~ref:"+k, fmt.Sprintf("library decodes a valid %s message differently: %s", kind, d), cs())
		return
	}
	afterDecode(m, g, in, encs, cs)
	// and what the library re-encodes is again the same content for the reference reader
	var out []byte
	p, v, st = mon.Guard(func() { out, err = g.Encode() })
	r.Eval(1)
	if p {
		r.Violation("Message.Encode:panic:"+mon.PanicClass(v), fmt.Sprintf("panic %v at %s", v, mon.TopLibFrame(st)), cs())
	} else if err != nil {
		r.Violation("Message.Encode:error-on-decoded-message", fmt.Sprintf("Encode of a decoded valid message fails: %v", err), cs())
	} else if hold("Message.Encode", out, cs); false {
	} else if ref, _, rerr := Unpack(out); rerr != nil {
		k := "unparseable:" + errClass(rerr)
		if hasRoot(m) {
			k = "message-with-root-name"
		}
		r.Violation("reencode~ref:"+k, fmt.Sprintf("reference cannot parse Encode(DecodeMessage(ref bytes)): %v", rerr), cs())
	} else if k, d := diffRef(m, ref); k != "" {
		if hasRoot(m) {
			k = "message-with-root-name"
		}
		r.Violation("reencode~ref:"+k, "Encode(DecodeMessage(ref bytes)) has different content: "+d, cs())
	}
	r.Count("reverse_pointers", ptrs)
	if maxDepth >= 2 {
		r.Count("reverse_chained_msgs", 1)
	}
	if nontrivialMsg(m, encs) {
		r.Nontrivial("rev|" + tag + "|" + fp(wire))
	}
}

// provoke feeds damaged versions of a valid message to the decoder and drops the results: a
// decode that is refused (or that panics, which C07 judges) must leave nothing behind that a
// later decode could see.
func provoke(wire []byte) {
	var bad [][]byte
	bad = append(bad, wire[:len(wire)/2], wire[:len(wire)-1], wire[:min(len(wire), 12)], wire[:min(len(wire), 13)])
	if len(wire) >= 12 {
		c := append([]byte(nil), wire...)
		copy(c[4:12], []byte{0xFF, 0xFF, 0xFF, 0xFF, 0xFF, 0xFF, 0xFF, 0xFF}) // counts far beyond the content
		bad = append(bad, c)
		l := append(append([]byte(nil), wire[:12]...), 0xC0, 0x0C, 0, 1, 0, 1) // a name pointing at itself
		l[4], l[5] = 0, 1
		bad = append(bad, l)
	}
	for _, b := range bad {
		mon.Guard(func() { llmnr.DecodeMessage(append([]byte(nil), b...)) })
		r.Count("refused_decodes_before_a_valid_one", 1)
	}
}

// ---------- name level ----------

func nameLevel(n Name, tag string) {
	wire := n.Wire()
	cs := map[string]any{"labels": len(n), "wire_hex": mon.FullHex(wire)}
	texts := []string{n.Text()}
	if len(n) == 0 {
		texts = []string{"", "."}
	}
	for _, text := range texts {
		var got []byte
		var err error
		p, v, st := mon.Guard(func() { got, err = llmnr.EncodeDomainName(text) })
		r.Eval(1)
		k := ""
		if len(n) == 0 {
			k = ":root-as-" + map[string]string{"": "empty", ".": "dot"}[text]
		}
		switch {
		case p:
			r.Violation("EncodeDomainName:panic:"+mon.PanicClass(v), fmt.Sprintf("panic %v at %s", v, mon.TopLibFrame(st)), cs)
		case err != nil:
			r.Violation("EncodeDomainName:error-on-valid-name"+k, fmt.Sprintf("EncodeDomainName(%q) = %v", text, err), cs)
		case !bytes.Equal(got, wire):
			r.Violation("EncodeDomainName:bytes"+k, fmt.Sprintf("EncodeDomainName(%q) = %x want %x", text, got, wire), cs)
		default:
			hold("EncodeDomainName", got, func() map[string]any { return cs })
		}
		var verr error
		p, v, st = mon.Guard(func() { verr = llmnr.ValidateDomainName(text) })
		r.Eval(1)
		if p {
			r.Violation("ValidateDomainName:panic:"+mon.PanicClass(v), fmt.Sprintf("panic %v at %s", v, mon.TopLibFrame(st)), cs)
		} else if verr != nil {
			r.Violation("ValidateDomainName:rejects-valid-name"+k, fmt.Sprintf("ValidateDomainName(%q) = %v (wire length %d)", text, verr, len(wire)), cs)
		}
	}
	// decode at offset 0 and at a non-zero offset inside a larger buffer
	for _, pre := range []int{0, 5} {
		buf := append(bytes.Repeat([]byte{0xAA}, pre), wire...)
		buf = append(buf, 0xDE, 0xAD)
		var s string
		var end int
		var err error
		p, v, st := mon.Guard(func() { s, end, err = llmnr.DecodeDomainName(buf, pre) })
		r.Eval(1)
		k := ""
		if len(n) == 0 {
			k = ":root"
		}
		if !p && err == nil && sameNameText(s, n) {
			// the caller's buffer is overwritten after the call; the returned name must not change
			scribble(buf, 0xAA)
			if !sameNameText(s, n) {
				r.Violation("DecodeDomainName:input-scribble"+k, fmt.Sprintf("the returned name changed to %q when the caller overwrote the input buffer after the call", s), cs)
				continue
			}
		}
		switch {
		case p:
			r.Violation("DecodeDomainName:panic:"+mon.PanicClass(v), fmt.Sprintf("panic %v at %s", v, mon.TopLibFrame(st)), cs)
			continue
		case err != nil:
			r.Violation("DecodeDomainName:rejects-valid:plain"+k, fmt.Sprintf("DecodeDomainName fails on a valid uncompressed name: %v", err), cs)
			continue
		case !sameNameText(s, n):
			r.Violation("DecodeDomainName:value:plain"+k, fmt.Sprintf("got %q want %q", s, n.Text()), cs)
			continue
		case end != pre+len(wire):
			r.Violation("DecodeDomainName:offset:plain"+k, fmt.Sprintf("new offset %d want %d", end, pre+len(wire)), cs)
			continue
		}
		// EncodeDomainName of whatever DecodeDomainName returned reproduces the bytes
		var re []byte
		p, v, st = mon.Guard(func() { re, err = llmnr.EncodeDomainName(s) })
		r.Eval(1)
		if p {
			r.Violation("EncodeDomainName:panic:"+mon.PanicClass(v), fmt.Sprintf("panic %v at %s", v, mon.TopLibFrame(st)), cs)
		} else if err != nil || !bytes.Equal(re, wire) {
			r.Violation("EncodeDomainName:reencode-of-decoded"+k, fmt.Sprintf("EncodeDomainName(DecodeDomainName(%x)=%q) = %x, %v", wire, s, re, err), cs)
		} else {
			hold("EncodeDomainName", re, func() map[string]any { return cs })
		}
	}
	r.Nontrivial("name|" + tag + "|" + fp(wire))
}

// ---------- AddQuestion / AddAnswer* ----------

func builders(m *RMsg, ips []string) {
	g := llmnr.NewMessage()
	g.ID, g.Flags = m.ID, m.Flags
	cs := func() map[string]any { return msgCase(m, nil, map[string]any{"ips": ips}) }
	p, v, st := mon.Guard(func() {
		for i, q := range m.Q {
			if err := g.AddQuestion(libText(q.Name, ""), q.Type, q.Class); err != nil {
				r.Violation("Message.AddQuestion:rejects-valid-name", fmt.Sprintf("AddQuestion(%q) = %v", q.Name.Text(), err), cs())
				return
			}
			if int(g.QDCount) != i+1 {
				r.Violation("Message.AddQuestion:qdcount", fmt.Sprintf("QDCount %d after %d questions", g.QDCount, i+1), cs())
			}
		}
		for i, x := range m.An {
			if err := g.AddAnswer(toLibRR(x, "")); err != nil {
				r.Violation("Message.AddAnswer:rejects-valid-name", fmt.Sprintf("AddAnswer(%q) = %v", x.Name.Text(), err), cs())
				return
			}
			if int(g.ANCount) != i+1 {
				r.Violation("Message.AddAnswer:ancount", fmt.Sprintf("ANCount %d after %d answers", g.ANCount, i+1), cs())
			}
		}
	})
	r.Eval(len(m.Q) + len(m.An))
	if p {
		r.Violation("Message.Add:panic:"+mon.PanicClass(v), fmt.Sprintf("panic %v at %s", v, mon.TopLibFrame(st)), cs())
		return
	}
	want := &RMsg{ID: m.ID, Flags: m.Flags, Q: append([]RQ(nil), m.Q...), An: append([]RRR(nil), m.An...)}
	// typed answers: the name of the first question (or a fresh name) with an address
	for _, ip := range ips {
		a, perr := netip.ParseAddr(ip)
		if perr != nil {
			continue
		}
		var nm Name
		if len(m.Q) > 0 && len(m.Q[0].Name) > 0 {
			nm = m.Q[0].Name
		} else {
			nm = Name{[]byte("host"), []byte("local")}
		}
		text := nm.Text()
		found := false
		for _, q := range want.Q {
			if q.Name.Text() == text {
				found = true
			}
		}
		var err error
		p, v, st := mon.Guard(func() {
			if a.Is4() {
				err = g.AddAnswerClassINTypeA(text, ip)
			} else {
				err = g.AddAnswerClassINTypeAAAA(text, ip)
			}
		})
		r.Eval(1)
		if p {
			r.Violation("Message.AddAnswerClassIN:panic:"+mon.PanicClass(v), fmt.Sprintf("panic %v at %s", v, mon.TopLibFrame(st)), cs())
			return
		}
		if err != nil {
			r.Violation("Message.AddAnswerClassIN:rejects-valid", fmt.Sprintf("AddAnswerClassINType*(%q,%q) = %v", text, ip, err), cs())
			return
		}
		t := uint16(1)
		if !a.Is4() {
			t = 28
		}
		if !found {
			want.Q = append(want.Q, RQ{nm, t, 1})
		}
		want.An = append(want.An, RRR{nm, t, 1, 30, a.AsSlice()})
	}
	var wire []byte
	var err error
	p, v, st = mon.Guard(func() { wire, err = g.Encode() })
	r.Eval(1)
	if p || err != nil {
		r.Violation("Message.Add:encode-fails", fmt.Sprintf("Encode after Add* fails: panic=%v err=%v at %s", v, err, mon.TopLibFrame(st)), cs())
		return
	}
	hold("Message.Encode", wire, cs)
	ref, _, rerr := Unpack(wire)
	if rerr != nil {
		r.Violation("Message.Add~ref:unparseable:"+errClass(rerr), fmt.Sprintf("reference cannot parse a message built with Add*: %v", rerr), cs())
		return
	}
	if k, d := diffRef(want, ref); k != "" {
		r.Violation("Message.Add~ref:"+k, "message built with Add* has different content: "+d, cs())
	}
	r.Nontrivial("add|" + fp(wire))
}

// ---------- workload ----------

func boundaryNames() []Name {
	var ns []Name
	ns = append(ns, Name{})
	for _, l := range []int{1, 2, 62, 63} {
		ns = append(ns, Name{bytes.Repeat([]byte{'a'}, l)})
		ns = append(ns, Name{bytes.Repeat([]byte{'b'}, l), []byte("local")})
	}
	ns = append(ns, exactName(255, 63, 'a'), exactName(254, 63, 'a'), exactName(253, 63, 'a'), exactName(255, 1, 'k'), exactName(253, 1, 'k'), exactName(255, 2, 'm'), exactName(255, 62, 'p'))
	// every byte value except '.' inside a label
	for b := 0; b < 256; b++ {
		if b == '.' {
			continue
		}
		ns = append(ns, Name{[]byte{'x', byte(b), 'y'}, []byte{byte(b)}})
	}
	// labels whose first byte looks like a pointer or a reserved label type
	ns = append(ns, Name{[]byte{0xC0, 0x0C}, []byte{0x40}, []byte{0x80, 0x00}}, Name{[]byte{0x00}}, Name{[]byte{0x00, 0x00}, []byte{0x00}})
	return ns
}

func boundaryMessages() []*RMsg {
	var out []*RMsg
	host := Name{[]byte("host"), []byte("local")}
	www := Name{[]byte("www"), []byte("host"), []byte("local")}
	rr := func(n Name, rd []byte) RRR { return RRR{n, 1, 1, 30, rd} }
	// the order of records inside a section is content: every permutation of records of special
	// types (OPT 41, TSIG 250, SIG 24, NSEC 47, SOA 6) with ordinary ones, in each section; and
	// the same record twice, records differing only in TTL, and in RDATA only
	special := []uint16{41, 250, 24, 47, 6, 1, 28, 16}
	for si := 0; si < 3; si++ {
		for a := 0; a < len(special); a++ {
			for b := 0; b < len(special); b++ {
				if (a+b+si)%3 != 0 && a != 0 && b != 0 {
					continue
				}
				m := &RMsg{ID: uint16(0x4000 + len(out)), Flags: 0x8000, Q: []RQ{{host, 255, 1}}}
				recs := []RRR{{Name{}, special[a], 1, 0, []byte{1, 2, 3}}, {host, special[b], 1, 30, []byte{10, 0, 0, 1}}, {www, special[(a+b)%len(special)], 1, 60, nil}}
				if a == b {
					recs = append(recs, recs[1], RRR{host, special[b], 1, 31, []byte{10, 0, 0, 1}}, RRR{host, special[b], 1, 30, []byte{10, 0, 0, 2}})
				}
				switch si {
				case 0:
					m.An = recs
				case 1:
					m.Ns = recs
				default:
					m.Ar = recs
				}
				out = append(out, m)
			}
		}
	}
	// every combination of empty / single / full sections
	for _, nq := range []int{0, 1, 8} {
		for _, na := range []int{0, 1, 6} {
			for _, nn := range []int{0, 1, 6} {
				for _, nr := range []int{0, 1, 6} {
					m := &RMsg{ID: uint16(0x1000 + len(out)), Flags: flagWords[len(out)%len(flagWords)]}
					for i := 0; i < nq; i++ {
						m.Q = append(m.Q, RQ{[]Name{host, www}[i%2], uint16(1 + i), 1})
					}
					mk := func(n int, t byte) []RRR {
						var s []RRR
						for i := 0; i < n; i++ {
							s = append(s, RRR{[]Name{www, host, {[]byte{t}, []byte("www"), []byte("host"), []byte("local")}}[i%3], uint16(t), 1, uint32(i) * 1000, bytes.Repeat([]byte{t}, 4+i)})
						}
						return s
					}
					m.An, m.Ns, m.Ar = mk(na, 'a'), mk(nn, 'n'), mk(nr, 'r')
					out = append(out, m)
				}
			}
		}
	}
	// header words
	for _, id := range boundaryU16 {
		for _, fl := range flagWords {
			out = append(out, &RMsg{ID: id, Flags: fl, Q: []RQ{{host, 1, 1}}})
		}
	}
	// type / class / ttl boundaries
	for _, v := range boundaryU16 {
		for _, t := range boundaryU32 {
			out = append(out, &RMsg{ID: 7, Flags: 0x8000, Q: []RQ{{host, v, v ^ 0xFFFF}}, An: []RRR{{host, v, v ^ 0x00FF, t, []byte{1, 2, 3, 4}}}})
		}
	}
	// rdata lengths in each record section
	for _, n := range rdLens {
		rd := bytes.Repeat([]byte{0x5A}, n)
		if n > 0 {
			rd[0], rd[n-1] = 0xC0, 0x0C
		}
		out = append(out, &RMsg{ID: 9, Flags: 0x8000, Q: []RQ{{host, 1, 1}}, An: []RRR{rr(host, rd)}})
		out = append(out, &RMsg{ID: 9, Flags: 0x8000, Q: []RQ{{host, 1, 1}}, An: []RRR{rr(host, rd), rr(www, []byte{1})}, Ns: []RRR{rr(www, rd)}, Ar: []RRR{rr(host, rd), rr(www, nil)}})
	}
	// root names in every position
	root := Name{}
	out = append(out,
		&RMsg{ID: 1, Q: []RQ{{root, 255, 1}}},
		&RMsg{ID: 2, Flags: 0x8000, Q: []RQ{{root, 2, 1}}, An: []RRR{rr(root, []byte{9})}},
		&RMsg{ID: 3, Flags: 0x8000, Q: []RQ{{host, 1, 1}, {root, 1, 1}, {www, 1, 1}}, An: []RRR{rr(host, nil), rr(root, nil)}, Ns: []RRR{rr(root, []byte{1})}, Ar: []RRR{rr(www, nil), rr(root, []byte{2, 3})}},
	)
	// boundary names in every section
	for _, n := range boundaryNames() {
		if len(n) == 0 {
			continue
		}
		out = append(out, &RMsg{ID: 4, Flags: 0x8000, Q: []RQ{{n, 1, 1}}, An: []RRR{rr(n, []byte{1, 2, 3, 4})}})
	}
	for _, n := range []Name{exactName(255, 63, 'a'), exactName(255, 1, 'k')} {
		sub := n[1:]
		out = append(out, &RMsg{ID: 5, Flags: 0x8000, Q: []RQ{{n, 1, 1}, {sub, 1, 1}}, An: []RRR{rr(n, []byte{1})}, Ns: []RRR{rr(sub, []byte{2})}, Ar: []RRR{rr(n, nil), rr(sub[1:], nil)}})
	}
	// names placed so that pointer targets fall at 255/256, 4095/4096 and the 14-bit limit 0x3FFF
	for _, at := range []int{255, 256, 4095, 4096, 0x3FFE, 0x3FFF, 0x4000} {
		// 12 header + question host.local (12+4) = 28; answer 1: name host.local(12)+10 fixed+rdata -> next name at 28+22+L
		L := at - 50
		tgt := Name{[]byte("target"), []byte("zone")}
		out = append(out, &RMsg{ID: 8, Flags: 0x8000, Q: []RQ{{host, 1, 1}},
			An: []RRR{rr(host, bytes.Repeat([]byte{0xC0}, L)), rr(tgt, []byte{1}), rr(tgt, []byte{2})},
			Ns: []RRR{rr(append(Name{[]byte("sub")}, tgt...), nil)},
			Ar: []RRR{rr(tgt[1:], []byte{3}), rr(host, nil)}})
	}
	// chains: x1.base, x2.x1.base, ... depth 10
	chain := host
	var qs []RQ
	for i := 0; i < 8; i++ {
		chain = append(Name{[]byte{'c', byte('0' + i)}}, chain...)
		qs = append(qs, RQ{chain, 1, 1})
	}
	cm := &RMsg{ID: 6, Flags: 0x8000, Q: qs}
	for i := 8; i < 12; i++ {
		chain = append(Name{[]byte{'c', byte('a' + i)}}, chain...)
		cm.An = append(cm.An, rr(chain, []byte{byte(i)}))
		cm.Ns = append(cm.Ns, rr(chain[3:], []byte{byte(i)}))
		cm.Ar = append(cm.Ar, rr(chain[1:], nil))
	}
	out = append(out, cm)
	return out
}

func hasRoot(m *RMsg) bool {
	for _, q := range m.Q {
		if len(q.Name) == 0 {
			return true
		}
	}
	for _, s := range [][]RRR{m.An, m.Ns, m.Ar} {
		for _, x := range s {
			if len(x.Name) == 0 {
				return true
			}
		}
	}
	return false
}

func valid(m *RMsg) bool {
	for _, q := range m.Q {
		if !q.Name.Valid() {
			return false
		}
	}
	for _, s := range [][]RRR{m.An, m.Ns, m.Ar} {
		for _, x := range s {
			if !x.Name.Valid() || len(x.RData) > 65535 {
				return false
			}
		}
	}
	return true
}

func main() {
	if os.Getenv("C09_WORKER") != "" {
		worker()
		return
	}
	r = mon.Start("C09", "exploration")
	r.Rule("Messages: every {0,1,max} section-size combination, header/type/class/TTL boundary words, RDATA 0,1,4,16,255,256,65535, root and boundary names (label 1,2,62,63; wire 253..255; every label byte value except '.') in every section, then seeded random messages with suffix-sharing names; each is (a) encoded by the library and read by the reference RFC 1035 reader and by the library, (b) written by the reference writer without and with compression (suffix sharing, chains, partial, pointer-to-root) and read by the library. Hostile names/messages (self, forward, out-of-range, looping, in-segment, header pointers, reserved label types, truncations, chains to the 14-bit limit) are decoded in child processes under a per-call CPU bound. State carried between calls: every encoder output (Message.Encode, EncodeResourceRecord, EncodeQuestion, EncodeDomainName) is held in a ring of 64 beside a private copy and re-compared after each later call and at the end (evicted ones are overwritten); every decoder input is a private buffer that is overwritten with 0xAA after the call and the decoded value compared again (32 decoded messages are held and re-compared later); RDLength fields and header counts are set to stale values (every record / one record / after replacing RDATA of a decoded message) and Encode must still produce the RFC 1035 form of the current fields; 8 goroutines encode/decode unrelated small (<=500 byte) messages and must get the single-caller values. Non-trivial: a message with >=2 populated sections, or a compression pointer, or a boundary-length label/name/RDATA; a distinct name wire form; a distinct hostile buffer.")
	r.Assume("the reference codec in harness/c09/dns1035.go is a correct reading of RFC 1035 §3.1/§4.1/§4.1.4 (it must read back its own output on every case, else inconclusive)",
		"RDATA is opaque to both codecs (no compression inside RDATA)",
		"root name may be rendered \"\" or \".\" by the decoder",
		"hostile inputs: rejecting more than the non-backward pointers (in-segment targets, header targets, reserved label types, names > 255 bytes) is allowed; accepting them is allowed if the content agrees with a literal reading",
		"non-termination is decided on 20 s of process CPU inside one decoder call in a child process; stack exhaustion with the child's stack capped at 64 MiB")

	// race side run (./check builds this monitor with -race): only the workloads in which goroutines
	// use the library at the same time; the detector's reports are filed by Finish
	if mon.SideRace() {
		concurrent()
		r.Finish()
	}

	// 1. names
	for i, n := range boundaryNames() {
		nameLevel(n, "b")
		if i%40 == 0 {
			r.Sample(map[string]any{"kind": "name", "wire_hex": mon.Hex(n.Wire())})
		}
	}
	rng := r.Rand("names")
	for i := 0; i < r.Pick(20000, 300000); i++ {
		nameLevel(genName(rng), "r")
	}

	// 2. messages, both directions
	run := func(m *RMsg, i int) {
		if !valid(m) {
			r.Inconclusive("generator produced an invalid message")
			return
		}
		forward(m, "", i%2 == 0)
		reverse(m, Comp{}, "plain")
		reverse(m, Comp{On: true, Prob: 1}, "suffix")
	}
	bm := boundaryMessages()
	for i, m := range bm {
		run(m, i)
		reverse(m, Comp{On: true, Prob: 1, PtrRoot: true}, "suffix+ptr-to-root")
		if i%30 == 0 {
			w, _ := m.Pack(Comp{On: true, Prob: 1})
			r.Sample(map[string]any{"kind": "message", "sections": []int{len(m.Q), len(m.An), len(m.Ns), len(m.Ar)}, "compressed_wire_hex": mon.Hex(w)})
		}
	}
	// the root name written as "." by the caller (deterministic cases only)
	for _, m := range bm {
		hasRoot := false
		for _, q := range m.Q {
			hasRoot = hasRoot || len(q.Name) == 0
		}
		if hasRoot {
			forward(m, ".", true)
		}
	}
	mrng := r.Rand("messages")
	crng := r.Rand("compress")
	nm := r.Pick(8000, 120000)
	for i := 0; i < nm; i++ {
		nq, na, nn, nr := mrng.IntN(9), mrng.IntN(7), mrng.IntN(7), mrng.IntN(7)
		if mrng.IntN(4) == 0 {
			nq, nn, nr = 1, 0, 0
		}
		m := genMsg(mrng, nq, na, nn, nr, i%50 == 0)
		run(m, i)
		reverse(m, Comp{On: true, Prob: 0.5, Rng: crng}, "partial")
		reverse(m, Comp{On: true, Prob: 0.9, PtrRoot: true, Rng: crng}, "partial+ptr-to-root")
		if i%(nm/4) == 1 {
			w, encs := m.Pack(Comp{On: true, Prob: 1})
			np := 0
			for _, e := range encs {
				if e.Ptr {
					np++
				}
			}
			r.Sample(map[string]any{"kind": "random message", "sections": []int{len(m.Q), len(m.An), len(m.Ns), len(m.Ar)}, "pointers": np, "compressed_wire_hex": mon.Hex(w)})
		}
	}

	// 2b. every assigned record type in turn (a codec must not special-case one), and messages made
	// almost only of minimal records (root owner, no RDATA: 11 octets each) in every section
	wellKnown := []uint16{1, 2, 5, 6, 12, 13, 15, 16, 17, 18, 24, 25, 28, 29, 33, 35, 36, 37, 39, 41, 42, 43, 44, 45, 46, 47, 48, 50, 51, 52, 55, 59, 60, 61, 64, 65, 99, 249, 250, 251, 252, 253, 254, 255, 256, 257, 32768, 32769}
	trng := r.Rand("types")
	for ti, ty := range wellKnown {
		for _, cl := range []uint16{1, 3, 4, 254, 255} {
			m := genMsg(trng, 1, 2, 1, 1, false)
			m.Q[0].Type, m.Q[0].Class = ty, cl
			for _, sec := range [][]RRR{m.An, m.Ns, m.Ar} {
				for k := range sec {
					sec[k].Type, sec[k].Class = ty, cl
				}
			}
			run(m, 1000000+ti)
			reverse(m, Comp{On: true, Prob: 0.5, Rng: crng}, "types")
		}
		// the same types with RDATA that reads as a (compressed) domain name: still opaque octets
		m := genMsg(trng, 1, 3, 2, 2, false)
		shapes := [][]byte{{0xC0, 0x0C}, append([]byte{4}, []byte("peer\xC0\x0C")...), append([]byte{4}, []byte("host\x05local\x00")...), {0}, {1, 'x', 0xC0, 0x0C, 0}}
		k := 0
		for _, sec := range [][]RRR{m.An, m.Ns, m.Ar} {
			for i := range sec {
				sec[i].Type, sec[i].Class = ty, 1
				sec[i].RData = append([]byte(nil), shapes[(k+ti)%len(shapes)]...)
				k++
			}
		}
		run(m, 1500000+ti)
		reverse(m, Comp{On: true, Prob: 0.5, Rng: crng}, "types-name-shaped-rdata")
	}
	for _, counts := range [][4]int{{0, 1, 0, 0}, {0, 0, 1, 0}, {0, 0, 0, 1}, {1, 1, 1, 1}, {0, 8, 0, 0}, {1, 6, 6, 6}, {0, 40, 40, 40}, {2, 0, 0, 30},
		// counts around the octet and 16-bit boundaries of the four header count words
		{0, 255, 0, 0}, {0, 0, 256, 0}, {0, 0, 0, 257}, {255, 0, 0, 0}, {256, 1, 0, 0}, {0, 300, 256, 1000}, {1, 0, 0, 256}, {0, 65535, 0, 0}, {0, 0, 0, 65535}, {0, 0, 65534, 0}, {4000, 0, 0, 0}} {
		m := &RMsg{ID: 0x4d4d, Flags: 0x8000}
		for i := 0; i < counts[0]; i++ {
			m.Q = append(m.Q, RQ{Name{}, 1, 1})
		}
		mk := func(n int) []RRR {
			var out []RRR
			for i := 0; i < n; i++ {
				out = append(out, RRR{Name{}, uint16(1 + i%3), 1, uint32(i), nil})
			}
			return out
		}
		m.An, m.Ns, m.Ar = mk(counts[1]), mk(counts[2]), mk(counts[3])
		run(m, 2000000)
		reverse(m, Comp{}, "minimal")
	}

	// 3. Add* builders
	brng := r.Rand("builders")
	ipSets := [][]string{{"192.168.1.1"}, {"fe80::1"}, {"0.0.0.0", "255.255.255.255", "::", "ffff:ffff:ffff:ffff:ffff:ffff:ffff:ffff"}, {"10.0.0.1", "2001:db8::1"}, nil}
	for i := 0; i < r.Pick(1500, 20000); i++ {
		m := genMsg(brng, brng.IntN(4), brng.IntN(4), 0, 0, false)
		builders(m, ipSets[i%len(ipSets)])
	}

	// 4. state carried between calls and aliasing between buffers
	carryOver(bm)

	// 5. hostile pointers, in child processes
	hostile()

	heldFinal()
	r.Finish()
}
