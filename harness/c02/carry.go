// State-carry-over and aliasing monitors of C02: the bytes a response function returned must
// stay what they were while later calls run; response functions must leave the caller's hash,
// challenge and target-info buffers alone; fields set directly on a response object must show
// in the next call (nothing memoised from the constructor or from an earlier call).
package main

import (
	"bytes"
	"encoding/hex"
	"fmt"
	"strings"
	"sync"

	"github.com/TheManticoreProject/Manticore/crypto/ntlmv1"
	"github.com/TheManticoreProject/Manticore/crypto/ntlmv2"
	"github.com/TheManticoreProject/Manticore/network/smb/smb_v10/spnego/ntlm"

	"verif/gen"
	"verif/mon"
	"verif/ref"
)

// heldRing keeps the last n slices a function returned (not copies) beside private copies,
// re-compares all of them when a new one arrives and at the end; a slice that leaves the ring
// is overwritten with 0x55. Goroutine-safe (the concurrent-callers phase feeds it too).
type heldRing struct {
	mu   sync.Mutex
	n    int
	live [][]byte
	priv [][]byte
}

func (h *heldRing) changed() int {
	c := 0
	for i := range h.live {
		if !bytes.Equal(h.live[i], h.priv[i]) {
			c++
			h.priv[i] = append([]byte(nil), h.live[i]...)
		}
	}
	return c
}

func (h *heldRing) hold(out []byte) int {
	h.mu.Lock()
	defer h.mu.Unlock()
	c := h.changed()
	if len(h.live) >= h.n {
		old := h.live[0]
		for i := range old {
			old[i] = 0x55
		}
		h.live, h.priv = h.live[1:], h.priv[1:]
	}
	h.live = append(h.live, out)
	h.priv = append(h.priv, append([]byte(nil), out...))
	return c
}

var (
	ringsMu sync.Mutex
	rings   = map[string]*heldRing{}
	ringSeq []string
)

func ringOf(entry string) *heldRing {
	ringsMu.Lock()
	defer ringsMu.Unlock()
	h := rings[entry]
	if h == nil {
		h = &heldRing{n: 64}
		rings[entry] = h
		ringSeq = append(ringSeq, entry)
	}
	return h
}

func hold(entry string, out []byte, cs map[string]any) {
	if len(out) == 0 {
		return
	}
	if c := ringOf(entry).hold(out); c > 0 {
		r.Violation(entry+":held-output-changed", fmt.Sprintf("%d byte slice(s) returned by earlier %s calls changed while a later call ran (output aliases a reused buffer)", c, entry), cs)
	}
	r.Count("held_outputs", 1)
}

func heldFinal() {
	ringsMu.Lock()
	defer ringsMu.Unlock()
	for _, e := range ringSeq {
		h := rings[e]
		h.mu.Lock()
		c := h.changed()
		h.mu.Unlock()
		if c > 0 {
			r.Violation(e+":held-output-changed", fmt.Sprintf("%d held outputs of %s differ from their copies at the end of the run", c, e), map[string]any{"phase": "final"})
		}
	}
}

// parityInput: ParityAdjust must not write into its argument, and the returned key must not
// be a view of it.
func parityInput(in, k7, got, want []byte, cs map[string]any) {
	if !bytes.Equal(in, k7) {
		r.Violation("ntlmv1.ParityAdjust:mutates-input", fmt.Sprintf("the 7-byte key handed in is %x after the call, was %x", in, k7), cs)
		return
	}
	if bytes.Equal(got, want) {
		for i := range in {
			in[i] = 0xAA
		}
		if !bytes.Equal(got, want) {
			r.Violation("ntlmv1.ParityAdjust:input-scribble", "the returned key changed when the caller overwrote the input after the call", cs)
		}
	}
}

// v1Inputs: after all calls on one NTLMv1 object the caller's hash and challenge bytes (and
// the bytes behind the hash slice, layout 2) are what they were.
func v1Inputs(ctor string, h *ntlmv1.NTLMv1, nt [16]byte, sc []byte, layout int, buf []byte, cs map[string]any) {
	bad := ""
	switch {
	case !bytes.Equal(h.ServerChallenge, sc):
		bad = "server challenge"
	case len(h.NTHash) >= 16 && !bytes.Equal(h.NTHash[:16], nt[:]):
		bad = "NT hash"
	case len(h.NTHash) != 16 && len(h.NTHash) != 0:
		bad = "NT hash length"
	case layout == 1 && (!bytes.Equal(buf[:16], nt[:]) || !bytes.Equal(buf[16:24], sc)):
		bad = "shared hash||challenge record"
	case layout == 2 && !bytes.Equal(buf[16:32], bytes.Repeat([]byte{0xEE}, 16)):
		bad = "bytes behind the hash slice"
	}
	if bad != "" {
		r.Violation("ntlmv1."+ctor+":mutates-input", "after the response calls the caller's "+bad+" changed", cs)
	}
}

// ---------- (d) fields set directly ----------

func staleV1(user, pw string, ntA, ntB [16]byte, scA, scB []byte, withPw bool) {
	cs := map[string]any{"nt_hash_first": hx(ntA[:]), "nt_hash_second": hx(ntB[:]), "sc_first": hx(scA), "sc_second": hx(scB), "with_password": withPw}
	var h *ntlmv1.NTLMv1
	var err error
	if withPw {
		h, err = ntlmv1.NewNTLMv1WithPassword("DOM", user, pw, append([]byte{}, scA...))
	} else {
		h, err = ntlmv1.NewNTLMv1WithNTHash("DOM", user, append([]byte{}, ntA[:]...), append([]byte{}, scA...))
	}
	if err != nil || h == nil {
		return
	}
	for step := 0; step < 5; step++ {
		nt, sc := ntA, scA
		switch step {
		case 1: // another challenge, same credential
			h.ServerChallenge = append([]byte{}, scB...)
			sc = scB
		case 2: // another hash as well
			h.ServerChallenge = append([]byte{}, scB...)
			h.NTHash = append([]byte{}, ntB[:]...)
			nt, sc = ntB, scB
		case 3: // the challenge bytes overwritten in place (same slice, new contents)
			h.NTHash = append([]byte{}, ntB[:]...)
			copy(h.ServerChallenge, scA)
			nt, sc = ntB, scA
		case 4: // the hash bytes overwritten in place
			copy(h.NTHash, ntA[:])
			copy(h.ServerChallenge, scB)
			nt, sc = ntA, scB
		}
		want := expectNTv1(nt, sc)
		for _, c := range v1calls {
			var got []byte
			var e error
			p, v, st := mon.Guard(func() { got, e = c.f(h) })
			r.Eval(1)
			key := "ntlmv1." + c.name
			switch {
			case p:
				r.Violation(key+":panic:"+mon.PanicClass(v), fmt.Sprintf("panic %v at %s", v, mon.TopLibFrame(st)), cs)
			case e != nil || !bytes.Equal(got, want):
				if step == 0 {
					continue // judged by ntlmv1Case
				}
				r.Violation(key+":stale-after-field-change", fmt.Sprintf("step %d: ServerChallenge/NTHash set directly on a used object; %s=%x (err=%v), DESL(current hash, current challenge)=%x", step, c.name, got, e, want), cs)
			default:
				hold(key, got, cs)
			}
		}
	}
	r.Nontrivial(fmt.Sprintf("stale-v1|%v|%x", withPw, ntB[:2]))
}

type v2id struct {
	user, domain, pw string
	sc, cc           [8]byte
}

func staleV2(a, b v2id) {
	cs := map[string]any{"first": fmt.Sprintf("%q", a), "second": fmt.Sprintf("%q", b)}
	var h *ntlmv2.NTLMv2
	var err error
	p, _, _ := mon.Guard(func() { h, err = ntlmv2.NewNTLMv2(a.domain, a.user, a.pw, a.sc, a.cc) })
	if p || err != nil || h == nil {
		return
	}
	if _, err = h.Hash(); err != nil {
		return
	}
	// every input field replaced on the used object
	h.Domain, h.Username, h.Password, h.ServerChallenge, h.ClientChallenge = b.domain, b.user, b.pw, b.sc, b.cc
	nt := ref.NTHash(b.pw)
	var resp []byte
	p, v, st := mon.Guard(func() { resp, err = h.Hash() })
	r.Eval(1)
	switch {
	case p:
		r.Violation("ntlmv2.Hash:panic:"+mon.PanicClass(v), fmt.Sprintf("panic %v at %s", v, mon.TopLibFrame(st)), cs)
		return
	case err != nil:
		r.Violation("ntlmv2.Hash:stale-after-field-change:error", fmt.Sprint(err), cs)
		return
	}
	cs["response"] = hx(resp)
	hold("ntlmv2.Hash", resp, cs)
	checkV2Response("ntlmv2.Hash:stale-after-field-change", resp, nt, b.user, b.domain, b.sc, b.cc, cs)
	var hs string
	p, _, _ = mon.Guard(func() { hs, err = h.HashHex() })
	r.Eval(1)
	if !p && err == nil {
		if bb, e := hex.DecodeString(hs); e == nil {
			checkV2Response("ntlmv2.HashHex:stale-after-field-change", bb, nt, b.user, b.domain, b.sc, b.cc, cs)
		}
	}
	if !strings.Contains(b.user, ":") && !strings.Contains(b.domain, ":") {
		var line string
		p, _, _ = mon.Guard(func() { line, err = h.ToHashcatString() })
		r.Eval(1)
		if !p && err == nil {
			f := strings.Split(line, ":")
			if len(f) == 6 {
				proof, e2 := hex.DecodeString(f[4])
				blob, e3 := hex.DecodeString(f[5])
				if f[0] != b.user || f[2] != b.domain || f[3] != hx(b.sc[:]) {
					r.Violation("ntlmv2.ToHashcatString:stale-after-field-change:identity", fmt.Sprintf("line %q does not carry the current user/domain/server challenge", line), cs)
				} else if e2 == nil && e3 == nil && len(proof) == 16 {
					checkV2Response("ntlmv2.ToHashcatString:stale-after-field-change", append(proof, blob...), nt, b.user, b.domain, b.sc, b.cc, cs)
				}
			}
		}
	}
	r.Nontrivial("stale-v2|" + caseClass(b.user) + "|" + caseClass(b.domain))
}

// authReuse: the same ChallengeMessage value serves two AUTHENTICATE messages; the builder
// must leave the challenge (and the target-info bytes it points to) alone, and both verify.
func authReuse(flags uint32, ti []byte, a, b v2id, ws string) {
	const e = "ntlm.CreateAuthenticateMessage"
	tiIn := append(make([]byte, 0, len(ti)+64), ti...) // spare capacity behind the list, as in a view of a larger message
	for i := len(ti); i < cap(tiIn); i++ {
		tiIn = append(tiIn, 0xEE)
	}
	view := tiIn[:len(ti)]
	if ti == nil {
		view = nil
	}
	ch := &ntlm.ChallengeMessage{MessageType: 2, NegotiateFlags: flags, ServerChallenge: a.sc, TargetInfo: view}
	copy(ch.Signature[:], nlmpSig)
	cs := map[string]any{"flags": fmt.Sprintf("%#08x", flags), "target_info": hx(ti), "first": fmt.Sprintf("%q", a), "second": fmt.Sprintf("%q", b)}
	var m1, m2 []byte
	var err error
	p, _, _ := mon.Guard(func() { m1, err = ntlm.CreateAuthenticateMessage(ch, a.user, a.pw, a.domain, ws) })
	r.Eval(1)
	if p || err != nil {
		return // judged by authCase
	}
	intact := func() bool {
		return ch.NegotiateFlags == flags && ch.ServerChallenge == a.sc && bytes.Equal(ch.TargetInfo, ti) && (ti == nil) == (ch.TargetInfo == nil) &&
			bytes.Equal(tiIn[:len(ti)], ti) && bytes.Equal(tiIn[len(ti):], bytes.Repeat([]byte{0xEE}, len(tiIn)-len(ti)))
	}
	if !intact() {
		r.Violation(e+":mutates-challenge", "the ChallengeMessage (or the bytes behind its TargetInfo view) changed during CreateAuthenticateMessage", cs)
		return
	}
	hold(e, m1, cs)
	p, v, st := mon.Guard(func() { m2, err = ntlm.CreateAuthenticateMessage(ch, b.user, b.pw, b.domain, ws) })
	r.Eval(1)
	if p {
		r.Violation(e+":panic:"+mon.PanicClass(v), fmt.Sprintf("panic %v at %s", v, mon.TopLibFrame(st)), cs)
		return
	}
	if err != nil {
		r.Violation(e+":challenge-reuse:error", fmt.Sprint(err), cs)
		return
	}
	hold(e, m2, cs)
	if !intact() {
		r.Violation(e+":mutates-challenge", "the ChallengeMessage (or the bytes behind its TargetInfo view) changed during the second CreateAuthenticateMessage", cs)
	}
	ess := flags&fESS != 0
	for i, x := range []struct {
		msg []byte
		id  v2id
		tag string
	}{{m2, b, ":challenge-reuse"}, {m1, a, ":held-output"}} {
		m, _ := readMessage(x.msg, 3)
		if m == nil {
			continue
		}
		cs["message"] = hx(x.msg)
		vps, _ := serverVerifyAuthenticate(m, a.sc[:], x.id.pw, ess)
		for _, q := range vps {
			r.Violation(e+x.tag+":"+q.Key(), fmt.Sprintf("message %d of two built from one ChallengeMessage: user=%q domain=%q: %s", 2-i, x.id.user, x.id.domain, q.Detail), cs)
		}
	}
	r.Nontrivial(fmt.Sprintf("auth-reuse|%#x|%v", flags&(fUnicode|fOEM|fVersion|fESS|fTargetInfo), ti == nil))
}

func carryOver() {
	rng := r.Rand("carry")
	n := r.Pick(6000, 100000)
	mkID := func(ascii bool) v2id {
		var x v2id
		x.user, _ = genName(rng, gen.Length(rng, 16), rng.IntN(len(scripts)+1)-1, rng.IntN(4), ascii)
		x.domain, _ = genName(rng, rng.IntN(12), rng.IntN(len(scripts)+1)-1, rng.IntN(4), ascii)
		if rng.IntN(2) == 0 {
			x.pw = gen.ASCII7(rng, rng.IntN(16))
		} else {
			x.pw = gen.UnicodeString(rng, gen.Length(rng, 20), -1)
		}
		copy(x.sc[:], gen.Bytes(rng, 8))
		copy(x.cc[:], gen.Bytes(rng, 8))
		return x
	}
	base := fNTLM | fAlwaysSign | fRequestTarget | f128 | f56
	for t := 0; t < n; t++ {
		var ntA, ntB [16]byte
		copy(ntA[:], gen.Bytes(rng, 16))
		copy(ntB[:], gen.Bytes(rng, 16))
		scA, scB := gen.Bytes(rng, 8), gen.Bytes(rng, 8)
		if t%2 == 0 {
			pw := gen.ASCII7(rng, rng.IntN(16))
			staleV1("user", pw, ref.NTHash(pw), ntB, scA, scB, true)
		} else {
			staleV1("user", "", ntA, ntB, scA, scB, false)
		}
		a, b := mkID(false), mkID(false)
		if t%5 == 0 {
			b.user, b.domain = a.user, a.domain // only the password and challenges change
		}
		if t%7 == 0 {
			b.pw = a.pw // only the identity changes
		}
		staleV2(a, b)
		// AUTHENTICATE twice from one challenge
		uni := rng.IntN(3) != 0
		flags := base
		if uni {
			flags |= fUnicode
		} else {
			flags |= fOEM
		}
		if rng.IntN(2) == 0 {
			flags |= fESS
		}
		if rng.IntN(2) == 0 {
			flags |= fVersion
		}
		var ti []byte
		if rng.IntN(3) != 0 {
			flags |= fTargetInfo
			var ps []avPair
			for _, id := range rng.Perm(10)[:rng.IntN(7)] {
				ps = append(ps, avPair{uint16(id + 1), gen.Bytes(rng, 2*rng.IntN(20))})
			}
			ti = encodeAV(ps)
		}
		x, y := mkID(!uni), mkID(!uni)
		y.sc = x.sc
		authReuse(flags, ti, x, y, "WS")
	}
}
