// C02: NTLMv1/NTLMv2 responses verify under an independent MS-NLMP verifier.
package main

import (
	"bytes"
	"encoding/hex"
	"fmt"
	"math/bits"
	"math/rand/v2"
	"strings"
	"sync"
	"sync/atomic"
	"time"
	"unicode"

	"github.com/TheManticoreProject/Manticore/crypto/ntlmv1"
	"github.com/TheManticoreProject/Manticore/crypto/ntlmv2"
	"github.com/TheManticoreProject/Manticore/network/smb/smb_v10/spnego/ntlm"

	"verif/gen"
	"verif/mon"
	"verif/ref"
)

var r *mon.Run

func hx(b []byte) string { return hex.EncodeToString(b) }

// ---------------------------------------------------------------- parity ------

// ownExpand: 7 bytes -> 8 bytes, written bit by bit (different construction
// from ref.DESKey7to8, with which it must agree).
func ownExpand(k7 []byte) []byte {
	out := make([]byte, 8)
	for i := 0; i < 8; i++ {
		var g byte
		for j := 0; j < 7; j++ {
			bit := i*7 + j
			if k7[bit/8]&(0x80>>uint(bit%8)) != 0 {
				g |= 0x40 >> uint(j)
			}
		}
		b := g << 1
		if bits.OnesCount8(b)%2 == 0 {
			b |= 1
		}
		out[i] = b
	}
	return out
}

func keyFromGroups(g [8]byte) []byte {
	k := make([]byte, 7)
	for i := 0; i < 8; i++ {
		for j := 0; j < 7; j++ {
			if g[i]&(0x40>>uint(j)) != 0 {
				bit := i*7 + j
				k[bit/8] |= 0x80 >> uint(bit%8)
			}
		}
	}
	return k
}

func checkParityAdjust(k7 []byte, tag string) {
	want := ownExpand(k7)
	if !bytes.Equal(want, ref.DESKey7to8(k7)) {
		r.Inconclusive("the two reference 7->8 expansions disagree")
	}
	var got []byte
	var err error
	in := append([]byte{}, k7...) // the caller's buffer
	p, v, st := mon.Guard(func() { got, err = ntlmv1.ParityAdjust(in) })
	r.Eval(1)
	cs := map[string]any{"key7": hx(k7), "want": hx(want), "got": hx(got)}
	switch {
	case p:
		r.Violation("ntlmv1.ParityAdjust:panic:"+mon.PanicClass(v), fmt.Sprintf("panic %v at %s", v, mon.TopLibFrame(st)), cs)
	case err != nil:
		r.Violation("ntlmv1.ParityAdjust:error", fmt.Sprintf("error %v for a 7-byte key", err), cs)
	case len(got) != 8:
		r.Violation("ntlmv1.ParityAdjust:length", fmt.Sprintf("ParityAdjust(%x) has %d bytes", k7, len(got)), cs)
	case !bytes.Equal(got, want):
		r.Violation("ntlmv1.ParityAdjust:value", fmt.Sprintf("ParityAdjust(%x)=%x want %x", k7, got, want), cs)
	default:
		parityInput(in, k7, got, want, cs)
		hold("ntlmv1.ParityAdjust", got, cs)
	}
	r.Nontrivial(tag)
}

func parity() {
	// ParityBit: all byte values; the bit that makes the total number of ones odd.
	for n := 0; n < 256; n++ {
		var got int
		p, v, _ := mon.Guard(func() { got = ntlmv1.ParityBit(n) })
		r.Eval(1)
		want := 1 - bits.OnesCount(uint(n))%2
		if p {
			r.Violation("ntlmv1.ParityBit:panic", fmt.Sprint(v), map[string]any{"n": n})
		} else if got != want {
			r.Violation("ntlmv1.ParityBit:value", fmt.Sprintf("ParityBit(%#x)=%d want %d", n, got, want), map[string]any{"n": n})
		}
	}
	r.Count("paritybit_values_exhaustive", 256)
	// ParityAdjust: every 7-bit group value at each of the 8 positions, on three backgrounds.
	for pos := 0; pos < 8; pos++ {
		for val := 0; val < 128; val++ {
			for bg, fill := range []byte{0x00, 0x7F, 0x2A} {
				var g [8]byte
				for i := range g {
					g[i] = fill
				}
				g[pos] = byte(val)
				checkParityAdjust(keyFromGroups(g), fmt.Sprintf("parity|%d|%d|%d", pos, val, bg))
			}
		}
	}
	r.Count("parityadjust_group_cases_exhaustive", 8*128*3)
	rng := r.Rand("parity")
	for t := 0; t < r.Pick(20000, 1000000); t++ {
		k := gen.Bytes(rng, 7)
		checkParityAdjust(k, "parity|rnd")
		if t == 0 {
			r.Sample(map[string]any{"kind": "ParityAdjust", "key7": hx(k), "key8": hx(ownExpand(k))})
		}
	}
}

// ---------------------------------------------------------------- names -------

func caseClass(s string) string {
	up, lo := 0, 0
	for _, c := range s {
		switch {
		case unicode.IsUpper(c) || unicode.IsTitle(c):
			up++
		case unicode.IsLower(c):
			lo++
		}
	}
	switch {
	case up == 0 && lo == 0:
		return "uncased"
	case lo == 0:
		return "upper"
	case up == 0:
		return "lower"
	}
	return "mixed"
}

var scripts = []struct {
	name   string
	lo, hi rune
}{
	{"ascii", 'A', 'z'}, {"latin1", 0xC0, 0xFF}, {"latinext", 0x100, 0x17F}, {"greek", 0x391, 0x3C9},
	{"cyrillic", 0x410, 0x44F}, {"deseret", 0x10400, 0x1044F}, {"cjk", 0x4E00, 0x4FFF}, {"fullwidth", 0xFF21, 0xFF5A},
}

// genName draws a name of n code points from one script (or a mix) and forces a
// letter case: 0 lower, 1 upper, 2 as drawn (mixed), 3 first-upper.
func genName(rng *rand.Rand, n, script, mode int, asciiOnly bool) (string, string) {
	var sb strings.Builder
	sname := "mixed"
	if asciiOnly {
		script = 0
	}
	if script >= 0 {
		sname = scripts[script].name
	}
	for i := 0; i < n; i++ {
		s := script
		if s < 0 {
			s = rng.IntN(len(scripts))
		}
		c := scripts[s].lo + rune(rng.IntN(int(scripts[s].hi-scripts[s].lo+1)))
		if s == 0 {
			for !(c >= 'A' && c <= 'Z' || c >= 'a' && c <= 'z') {
				c = 'A' + rune(rng.IntN(58))
			}
			if rng.IntN(9) == 0 {
				c = rune("0123456789.-_$ @"[rng.IntN(16)])
			}
		}
		sb.WriteRune(c)
	}
	s := sb.String()
	switch mode {
	case 0:
		s = strings.ToLower(s)
	case 1:
		s = strings.ToUpper(s)
	case 3:
		rs := []rune(strings.ToLower(s))
		if len(rs) > 0 {
			rs[0] = unicode.ToUpper(rs[0])
		}
		s = string(rs)
	}
	return s, sname
}

func nontrivial(entry, user, domain, us, ds string) {
	dc := caseClass(domain)
	if domain != "" && dc != "uncased" {
		r.Nontrivial(fmt.Sprintf("%s|%s|%s|%s|%s", entry, caseClass(user), dc, us, ds))
	}
}

// ---------------------------------------------------------------- NTLMv1 ------

type v1call struct {
	name string
	f    func(h *ntlmv1.NTLMv1) ([]byte, error)
}

var v1calls = []v1call{
	{"Hash", func(h *ntlmv1.NTLMv1) ([]byte, error) { return h.Hash() }},
	{"NTResponse", func(h *ntlmv1.NTLMv1) ([]byte, error) { return h.NTResponse() }},
	{"String", func(h *ntlmv1.NTLMv1) ([]byte, error) {
		s := h.String()
		b, err := hex.DecodeString(s)
		if err != nil {
			return nil, fmt.Errorf("String() is not hex: %q", s)
		}
		return b, nil
	}},
}

// ntlmv1Case: one credential, one challenge, one memory layout, one call order.
// layout 0: hash and challenge in separate exact-size slices; 1: hash||challenge
// carved from one buffer; 2: hash slice with spare capacity holding other data.
func ntlmv1Case(password string, havePw bool, nt [16]byte, sc []byte, layout int, order []int, tag string) {
	wantNT := expectNTv1(nt, sc)
	cs := map[string]any{"password": password, "have_password": havePw, "nt_hash": hx(nt[:]), "server_challenge": hx(sc), "layout": layout, "order": order}
	ctor := "WithNTHash"
	lay := ""
	var h *ntlmv1.NTLMv1
	var err error
	var buf []byte
	if havePw {
		ctor = "WithPassword"
		h, err = ntlmv1.NewNTLMv1WithPassword("DOM", "user", password, append([]byte{}, sc...))
	} else {
		switch layout {
		case 0:
			h, err = ntlmv1.NewNTLMv1WithNTHash("DOM", "user", append([]byte{}, nt[:]...), append([]byte{}, sc...))
		case 1:
			lay = ":hash-and-challenge-in-one-buffer"
			buf = append(append(make([]byte, 0, 24), nt[:]...), sc...)
			h, err = ntlmv1.NewNTLMv1WithNTHash("DOM", "user", buf[:16], buf[16:24])
		case 2:
			lay = ":hash-slice-with-spare-capacity"
			buf = append(append(make([]byte, 0, 32), nt[:]...), bytes.Repeat([]byte{0xEE}, 16)...)
			h, err = ntlmv1.NewNTLMv1WithNTHash("DOM", "user", buf[:16], append([]byte{}, sc...))
		}
	}
	if err != nil || h == nil {
		r.Violation("ntlmv1.New"+ctor+":error", fmt.Sprintf("constructor refused an 8-byte challenge: %v", err), cs)
		return
	}
	for _, oi := range order {
		c := v1calls[oi]
		var got []byte
		var e error
		p, v, st := mon.Guard(func() { got, e = c.f(h) })
		r.Eval(1)
		key := "ntlmv1." + ctor + "." + c.name
		switch {
		case p:
			r.Violation(key+":panic:"+mon.PanicClass(v), fmt.Sprintf("panic %v at %s", v, mon.TopLibFrame(st)), cs)
		case e != nil:
			r.Violation(key+":error", fmt.Sprintf("error %v", e), cs)
		case !bytes.Equal(got, wantNT):
			r.Violation(key+":response"+lay, fmt.Sprintf("%s=%x, DESL(NT hash, challenge)=%x (nt=%x sc=%x, call order %v)", c.name, got, wantNT, nt, sc, order), cs)
		default:
			hold("ntlmv1."+c.name, got, cs)
		}
	}
	if !havePw {
		v1Inputs(ctor, h, nt, sc, layout, buf, cs)
	}
	if havePw && isASCII7(password) {
		wantLM := expectLMv1(password, sc)
		var got []byte
		var e error
		p, v, st := mon.Guard(func() { got, e = h.LMResponse() })
		r.Eval(1)
		key := "ntlmv1.WithPassword.LMResponse"
		switch {
		case p:
			r.Violation(key+":panic:"+mon.PanicClass(v), fmt.Sprintf("panic %v at %s", v, mon.TopLibFrame(st)), cs)
		case e != nil:
			r.Violation(key+":error", fmt.Sprintf("error %v", e), cs)
		case !bytes.Equal(got, wantLM):
			r.Violation(key+":response", fmt.Sprintf("LMResponse=%x, DESL(LM hash, challenge)=%x (pw=%q sc=%x)", got, wantLM, password, sc), cs)
		default:
			hold("ntlmv1.LMResponse", got, cs)
		}
	}
	r.Nontrivial(tag)
}

// relatedThirds returns NT hashes in which one 7-byte third of the zero-padded
// 21-byte key material repeats another, exactly or with one bit flipped
// (pairs 1/2, 2/3, 1/3; the last third has only two free bytes).
func relatedThirds(rng *rand.Rand, rounds int) [][16]byte {
	var out [][16]byte
	for round := 0; round < rounds; round++ {
		for pair := 0; pair < 3; pair++ {
			for bit := -1; bit < 56; bit++ {
				var k [21]byte
				copy(k[:], gen.Bytes(rng, 16))
				a, b := 0, 7
				switch pair {
				case 1:
					a, b = 7, 14
				case 2:
					a, b = 0, 14
				}
				if b == 14 {
					// third 3 is hash[14:16] followed by five zero bytes
					for j := 2; j < 7; j++ {
						k[a+j] = 0
					}
					k[14], k[15] = k[a], k[a+1]
					if bit >= 0 {
						k[a+bit/8] ^= 0x80 >> (bit % 8)
					}
				} else {
					copy(k[b:b+7], k[a:a+7])
					if bit >= 0 {
						k[b+bit/8] ^= 0x80 >> (bit % 8)
					}
				}
				var nt [16]byte
				copy(nt[:], k[:16])
				out = append(out, nt)
			}
		}
	}
	return out
}

var fixedChallenges = [][]byte{
	make([]byte, 8),
	bytes.Repeat([]byte{0xFF}, 8),
	{0x01, 0x23, 0x45, 0x67, 0x89, 0xab, 0xcd, 0xef},
	{0x11, 0x22, 0x33, 0x44, 0x55, 0x66, 0x77, 0x88},
	{0x80, 0, 0, 0, 0, 0, 0, 0x01},
}

var fixedPasswords = []string{"", "Password", "password", "PASSWORD", "a", "Podalirius!", "14charsexactly", "fifteen-chars-x", "Pässwörd", "пароль", "密码", "p😀w", strings.Repeat("x", 128),
	// pass phrases beyond any length a form field would take
	strings.Repeat("y", 255), strings.Repeat("y", 256), strings.Repeat("y", 257), strings.Repeat("long pass phrase ", 60), strings.Repeat("é", 5000)}

var callOrders = [][]int{{0, 1, 2}, {1, 0, 2}, {2, 1, 0}, {0, 0, 1}, {1, 1, 0}}

func ntlmv1All() {
	rng := r.Rand("ntlmv1")
	// deterministic part
	i := 0
	for _, pw := range fixedPasswords {
		nt := ref.NTHash(pw)
		for ci, sc := range fixedChallenges {
			ntlmv1Case(pw, true, nt, sc, 0, callOrders[i%len(callOrders)], fmt.Sprintf("v1|pw|%d|%d", len(pw), ci))
			for layout := 0; layout < 3; layout++ {
				ntlmv1Case("", false, nt, sc, layout, callOrders[(i+layout)%len(callOrders)], fmt.Sprintf("v1|nt|%d|%d|%d", len(pw), ci, layout))
			}
			i++
		}
	}
	// secrets that look like something else (hash spellings, quoting, whitespace) are passwords
	for si, pw := range gen.ShapedSecrets() {
		for ci := 0; ci < 2; ci++ {
			sc := fixedChallenges[(si+ci)%len(fixedChallenges)]
			ntlmv1Case(pw, true, ref.NTHash(pw), sc, 0, callOrders[(si+ci)%len(callOrders)], fmt.Sprintf("v1|shaped|%d|%d", si, ci))
		}
	}
	for _, fill := range []byte{0x00, 0xFF, 0x01, 0x80, 0xFE} {
		var nt [16]byte
		for j := range nt {
			nt[j] = fill
		}
		for ci, sc := range fixedChallenges {
			for layout := 0; layout < 3; layout++ {
				ntlmv1Case("", false, nt, sc, layout, callOrders[(ci+layout)%len(callOrders)], fmt.Sprintf("v1|fill|%d|%d|%d", fill, ci, layout))
			}
		}
	}
	// hashes whose 7-byte thirds are equal or differ in exactly one of their 56 bits
	// (each third is its own DES key; anything that remembers work per third must tell them apart)
	for ri, nt := range relatedThirds(rng, 2) {
		sc := fixedChallenges[ri%len(fixedChallenges)]
		if ri%3 == 0 {
			sc = gen.Bytes(rng, 8)
		}
		ntlmv1Case("", false, nt, sc, ri%3, callOrders[ri%len(callOrders)], fmt.Sprintf("v1|related-thirds|%d", ri%171))
	}
	r.Sample(map[string]any{"kind": "ntlmv1", "password": "Password", "server_challenge": "0123456789abcdef",
		"nt_response": hx(expectNTv1(ref.NTHash("Password"), fixedChallenges[2])), "lm_response": hx(expectLMv1("Password", fixedChallenges[2]))})
	// seeded remainder
	n := r.Pick(40000, 1500000)
	rtPool := relatedThirds(rng, 8)
	for t := 0; t < n; t++ {
		sc := gen.Bytes(rng, 8)
		if rng.IntN(10) == 0 {
			sc = fixedChallenges[rng.IntN(len(fixedChallenges))]
		}
		order := callOrders[rng.IntN(len(callOrders))]
		if rng.IntN(2) == 0 {
			var pw string
			switch rng.IntN(4) {
			case 0:
				pw = gen.ASCII7(rng, rng.IntN(20))
			case 1:
				pw = gen.UnicodeString(rng, rng.IntN(40), -1)
			default:
				pw = gen.UnicodeString(rng, gen.Length(rng, 30), rng.IntN(len(gen.ClassNames)))
			}
			ntlmv1Case(pw, true, ref.NTHash(pw), sc, 0, order, fmt.Sprintf("v1|rndpw|%d|%v", len(pw), isASCII7(pw)))
			if t%(n/3+1) == 0 {
				r.Sample(map[string]any{"kind": "ntlmv1", "password": pw, "server_challenge": hx(sc), "nt_response": hx(expectNTv1(ref.NTHash(pw), sc))})
			}
		} else {
			var nt [16]byte
			copy(nt[:], gen.Bytes(rng, 16))
			if rng.IntN(8) == 0 {
				nt = rtPool[rng.IntN(len(rtPool))]
			}
			layout := rng.IntN(3)
			ntlmv1Case("", false, nt, sc, layout, order, fmt.Sprintf("v1|rndnt|%d|%x", layout, nt[:2]))
		}
	}
}

// ---------------------------------------------------------------- NTLMv2 ------

func keyOf(p problem) string { return p.Key() }

// checkV2Response judges one NTLMv2 response produced for (user, domain, pw, sc, cc).
func checkV2Response(entry string, resp []byte, nt [16]byte, user, domain string, sc, cc [8]byte, cs map[string]any) {
	key := ref.NTOWFv2(nt, user, domain)
	res := verifyNTLMv2(resp, sc[:], key, []altKey{
		{"domain-uppercased-in-key", ref.NTOWFv2(nt, user, strings.ToUpper(domain))},
		{"user-not-uppercased-in-key", ref.HMACMD5(nt[:], ref.UTF16LE(user+domain))},
	})
	for _, p := range res.Problems {
		r.Violation(entry+":"+p.Key(), fmt.Sprintf("user=%q domain=%q: %s", user, domain, p.Detail), cs)
	}
	if res.CC != nil && !bytes.Equal(res.CC, cc[:]) {
		r.Violation(entry+":blob:client-challenge", fmt.Sprintf("blob carries client challenge %x, supplied %x", res.CC, cc), cs)
	}
}

func ntlmv2Case(user, domain, pw string, sc, cc [8]byte, us, ds string) {
	nt := ref.NTHash(pw)
	cs := map[string]any{"user": user, "domain": domain, "password": pw, "server_challenge": hx(sc[:]), "client_challenge": hx(cc[:])}
	var h *ntlmv2.NTLMv2
	var err error
	p, v, st := mon.Guard(func() { h, err = ntlmv2.NewNTLMv2(domain, user, pw, sc, cc) })
	r.Eval(1)
	if p {
		r.Violation("ntlmv2.NewNTLMv2:panic:"+mon.PanicClass(v), fmt.Sprintf("panic %v at %s", v, mon.TopLibFrame(st)), cs)
		return
	}
	if err != nil || h == nil {
		r.Violation("ntlmv2.NewNTLMv2:error", fmt.Sprint(err), cs)
		return
	}
	wantKey := ref.NTOWFv2(nt, user, domain)
	if !bytes.Equal(h.ResponseKeyNT[:], wantKey) {
		cls := "mismatch"
		if bytes.Equal(h.ResponseKeyNT[:], ref.NTOWFv2(nt, user, strings.ToUpper(domain))) {
			cls = "domain-uppercased-in-key"
		}
		r.Violation("ntlmv2.NewNTLMv2:ResponseKeyNT:"+cls, fmt.Sprintf("user=%q domain=%q ResponseKeyNT=%x, NTOWFv2=%x", user, domain, h.ResponseKeyNT, wantKey), cs)
	}
	// Hash
	var resp []byte
	p, v, st = mon.Guard(func() { resp, err = h.Hash() })
	r.Eval(1)
	switch {
	case p:
		r.Violation("ntlmv2.Hash:panic:"+mon.PanicClass(v), fmt.Sprintf("panic %v at %s", v, mon.TopLibFrame(st)), cs)
	case err != nil:
		r.Violation("ntlmv2.Hash:error", fmt.Sprint(err), cs)
	default:
		cs["response"] = hx(resp)
		hold("ntlmv2.Hash", resp, cs)
		checkV2Response("ntlmv2.Hash", resp, nt, user, domain, sc, cc, cs)
	}
	// HashHex
	var hs string
	p, v, st = mon.Guard(func() { hs, err = h.HashHex() })
	r.Eval(1)
	switch {
	case p:
		r.Violation("ntlmv2.HashHex:panic:"+mon.PanicClass(v), fmt.Sprintf("panic %v at %s", v, mon.TopLibFrame(st)), cs)
	case err != nil:
		r.Violation("ntlmv2.HashHex:error", fmt.Sprint(err), cs)
	default:
		b, e := hex.DecodeString(hs)
		if e != nil {
			r.Violation("ntlmv2.HashHex:not-hex", fmt.Sprintf("%q", hs), cs)
		} else {
			checkV2Response("ntlmv2.HashHex", b, nt, user, domain, sc, cc, cs)
		}
	}
	// hashcat line (the format cannot carry ':' inside user or domain)
	if strings.Contains(user, ":") || strings.Contains(domain, ":") {
		r.Count("hashcat_skipped_colon", 1)
	} else {
		var line string
		p, v, st = mon.Guard(func() { line, err = h.ToHashcatString() })
		r.Eval(1)
		switch {
		case p:
			r.Violation("ntlmv2.ToHashcatString:panic:"+mon.PanicClass(v), fmt.Sprintf("panic %v at %s", v, mon.TopLibFrame(st)), cs)
		case err != nil:
			r.Violation("ntlmv2.ToHashcatString:error", fmt.Sprint(err), cs)
		default:
			cs["hashcat"] = line
			checkHashcat(line, nt, user, domain, sc, cc, cs)
		}
	}
	nontrivial("ntlmv2", user, domain, us, ds)
}

// checkHashcat re-parses the line by hashcat's mode 5600 rule
// user::domain:serverchallenge(16 hex):NTProofStr(32 hex):blob(hex)
// and verifies it like hashcat does: identity = UTF16LE(upper(user)) || UTF16LE(domain).
func checkHashcat(line string, nt [16]byte, user, domain string, sc, cc [8]byte, cs map[string]any) {
	const e = "ntlmv2.ToHashcatString"
	f := strings.Split(line, ":")
	if len(f) != 6 || f[1] != "" {
		r.Violation(e+":format:field-count", fmt.Sprintf("%d ':'-separated fields in %q", len(f), line), cs)
		return
	}
	if f[0] != user {
		r.Violation(e+":user", fmt.Sprintf("user field %q, supplied %q", f[0], user), cs)
	}
	if f[2] != domain {
		r.Violation(e+":domain", fmt.Sprintf("domain field %q, supplied %q", f[2], domain), cs)
	}
	scb, e1 := hex.DecodeString(f[3])
	proof, e2 := hex.DecodeString(f[4])
	blob, e3 := hex.DecodeString(f[5])
	bad := false
	if e1 != nil || len(scb) != 8 {
		r.Violation(e+":format:server-challenge-field", fmt.Sprintf("field 4 is %q, need 16 hex digits", f[3]), cs)
		bad = true
	} else if !bytes.Equal(scb, sc[:]) {
		r.Violation(e+":server-challenge", fmt.Sprintf("field 4 %s, supplied %x", f[3], sc), cs)
	}
	if e2 != nil || len(proof) != 16 {
		r.Violation(e+":format:ntproofstr-field", fmt.Sprintf("field 5 (NTProofStr) has %d hex digits, need 32: %q", len(f[4]), f[4]), cs)
		bad = true
	}
	if e3 != nil {
		r.Violation(e+":format:blob-field", fmt.Sprintf("field 6 is not hex: %.40q", f[5]), cs)
		bad = true
	}
	if bad {
		return
	}
	// hashcat's identity uses the user upper-cased and the domain as printed
	checkV2Response(e, append(append([]byte{}, proof...), blob...), nt, f[0], f[2], sc, cc, cs)
}

var fixedUsers = []string{"user", "User", "USER", "", "Üser", "пользователь", "ΑΒΓδ", "用户", "𐐨𐐩user", "Administrator", "100%", "%s%d", "a%%b%x", "u\uFFFDser",
	// letters whose upper-case, title-case and folded forms all differ, or whose mapping changes
	// the script block or the encoded length: digraphs (U+01C4..01CC, 01F1..01F3), Georgian,
	// dotless/dotted i, long s, micro sign, sharp s, final sigma, ypogegrammeni
	"ǆ", "ǅ", "Ǆ", "ǉemal", "ǈ", "ǌ", "ǳ", "ǲ", "Ǳ", "ქართული", "ıi", "İI", "ſtudent", "µ", "ß", "ς", "ᾳ", "ŉ", "ÿ", "ﬁ",
	// NUL is a character of a name like any other (at the end, at the start, inside)
	"user\x00", "\x00user", "us\x00er", "user\x00\x00"}
var fixedDomains = []string{"Domain", "DOMAIN", "domain", "", "corp.Example.com", "Домен", "δομή", "域", "𐐀𐐨", "ÉCOLE", "dom%v", "%!s(MISSING)", "d\uFFFDm", "DOM\x00", "\x00"}

func ntlmv2All() {
	rng := r.Rand("ntlmv2")
	var ch [][8]byte
	for _, c := range fixedChallenges {
		var a [8]byte
		copy(a[:], c)
		ch = append(ch, a)
	}
	i := 0
	for _, u := range fixedUsers {
		for _, d := range fixedDomains {
			pw := fixedPasswords[i%len(fixedPasswords)]
			ntlmv2Case(u, d, pw, ch[i%len(ch)], ch[(i/2+1)%len(ch)], "fixed", "fixed")
			i++
		}
	}
	// qualified-looking user names, odd domains and hash-looking passwords are taken literally
	shapedPw := append(append([]string{}, gen.ShapedSecrets()...), fixedPasswords...)
	for _, u := range append(gen.ShapedUsers(), "user", "") {
		for _, d := range gen.ShapedDomains() {
			ntlmv2Case(u, d, shapedPw[i%len(shapedPw)], ch[i%len(ch)], ch[(i/3+1)%len(ch)], "shaped", "shaped")
			i++
		}
	}
	for _, pw := range gen.ShapedSecrets() {
		ntlmv2Case("User", "Domain", pw, ch[i%len(ch)], ch[(i/3+1)%len(ch)], "shaped", "shaped")
		ntlmv2Case("CORP\\alice", "", pw, ch[i%len(ch)], ch[(i/3+1)%len(ch)], "shaped", "shaped")
		i++
	}
	n := r.Pick(40000, 1000000)
	for t := 0; t < n; t++ {
		us, ds := rng.IntN(len(scripts)+1)-1, rng.IntN(len(scripts)+1)-1
		user, usn := genName(rng, gen.Length(rng, 20), us, rng.IntN(4), false)
		dom, dsn := genName(rng, 1+rng.IntN(15), ds, rng.IntN(4), false)
		if rng.IntN(12) == 0 {
			dom = ""
		}
		var pw string
		if rng.IntN(2) == 0 {
			pw = gen.ASCII7(rng, rng.IntN(20))
		} else {
			pw = gen.UnicodeString(rng, gen.Length(rng, 30), -1)
		}
		var sc, cc [8]byte
		copy(sc[:], gen.Bytes(rng, 8))
		copy(cc[:], gen.Bytes(rng, 8))
		switch rng.IntN(12) {
		case 0:
			sc = ch[rng.IntN(2)]
		case 1:
			cc = ch[rng.IntN(2)]
		}
		ntlmv2Case(user, dom, pw, sc, cc, usn, dsn)
		if t%(n/3+1) == 0 {
			r.Sample(map[string]any{"kind": "ntlmv2", "user": user, "domain": dom, "password": pw, "server_challenge": hx(sc[:]), "client_challenge": hx(cc[:]),
				"ntowfv2": hx(ref.NTOWFv2(ref.NTHash(pw), user, dom))})
		}
	}
}

// ------------------------------------------------- AUTHENTICATE messages ------

func authCase(flags uint32, ti []byte, user, pw, domain, ws string, sc [8]byte, us, ds string) {
	cs := map[string]any{"flags": fmt.Sprintf("%#08x", flags), "target_info": hx(ti), "user": user, "password": pw, "domain": domain, "workstation": ws, "server_challenge": hx(sc[:])}
	const e = "ntlm.CreateAuthenticateMessage"
	ch := &ntlm.ChallengeMessage{MessageType: 2, NegotiateFlags: flags, ServerChallenge: sc, TargetInfo: ti}
	copy(ch.Signature[:], nlmpSig)
	var msg []byte
	var err error
	p, v, st := mon.Guard(func() { msg, err = ntlm.CreateAuthenticateMessage(ch, user, pw, domain, ws) })
	r.Eval(1)
	if p {
		r.Violation(e+":panic:"+mon.PanicClass(v), fmt.Sprintf("panic %v at %s", v, mon.TopLibFrame(st)), cs)
		return
	}
	if err != nil {
		r.Violation(e+":error", fmt.Sprint(err), cs)
		return
	}
	cs["message"] = hx(msg)
	hold(e, msg, cs)
	m, ps := readMessage(msg, 3)
	for _, q := range ps {
		// structure is C08's business; here only what stops a server from finding the responses
		if strings.Contains(q.Key(), "ChallengeResponse") || strings.Contains(q.Key(), "UserName") || strings.Contains(q.Key(), "DomainName") || q.Class == "header" {
			r.Violation(e+":unreadable:"+q.Key(), q.Detail, cs)
		}
	}
	ess := flags&fESS != 0
	vps, v2 := serverVerifyAuthenticate(m, sc[:], pw, ess)
	for _, q := range vps {
		r.Violation(e+":"+q.Key(), fmt.Sprintf("user=%q domain=%q flags=%#x: %s", user, domain, flags, q.Detail), cs)
	}
	if ess {
		// the name a server reads must still be the caller's user, or it verified a different account
		if u, ok := decodeName(m.Fields["UserName"], m.Flags); !ok || u != user {
			r.Violation(e+":user-name-altered", fmt.Sprintf("UserName in message %q, supplied %q", u, user), cs)
		}
		if d, ok := decodeName(m.Fields["DomainName"], m.Flags); !ok || !sameName(d, domain, true) {
			r.Violation(e+":domain-name-altered", fmt.Sprintf("DomainName in message %q, supplied %q", d, domain), cs)
		}
		_ = v2
		nontrivial("auth-v2", user, domain, us, ds)
	} else {
		r.Nontrivial(fmt.Sprintf("auth-v1|%#x|%d|%v", flags&(fUnicode|fOEM|fVersion), len(pw), isASCII7(pw)))
	}
}

func authAll() {
	rng := r.Rand("auth")
	base := fNTLM | fAlwaysSign | fRequestTarget | f128 | f56
	tiSets := [][]avPair{
		nil,
		{},
		{{2, ref.UTF16LE("DOMAIN")}, {1, ref.UTF16LE("SERVER")}, {4, ref.UTF16LE("domain.local")}, {3, ref.UTF16LE("server.domain.local")}, {7, []byte{1, 2, 3, 4, 5, 6, 7, 8}}},
		{{2, ref.UTF16LE("DOMAIN")}, {12, []byte{0xAB}}, {7, []byte{1, 2, 3, 4, 5, 6, 7, 8}}},
		{{11, []byte{1, 2, 3}}},
	}
	i := 0
	for _, ess := range []bool{false, true} {
		for _, uni := range []bool{true, false} {
			for _, ver := range []bool{false, true} {
				for tii, tis := range tiSets {
					flags := base
					if ess {
						flags |= fESS
					}
					if uni {
						flags |= fUnicode
					} else {
						flags |= fOEM
					}
					if ver {
						flags |= fVersion
					}
					var ti []byte
					if tis != nil {
						flags |= fTargetInfo
						ti = encodeAV(tis)
					}
					_ = tii
					for k := 0; k < 6; k++ {
						u, d := fixedUsers[(i+k)%len(fixedUsers)], fixedDomains[(i+2*k)%len(fixedDomains)]
						pw := fixedPasswords[(i+k)%len(fixedPasswords)]
						if !uni {
							if !isASCII7(u) {
								u = "User"
							}
							if !isASCII7(d) {
								d = "Domain"
							}
						}
						var sc [8]byte
						copy(sc[:], fixedChallenges[(i+k)%len(fixedChallenges)])
						authCase(flags, ti, u, pw, d, "Workstation", sc, "fixed", "fixed")
						if uni && k%2 == 1 {
							// a server that echoes both character-set bits has chosen Unicode (MS-NLMP 2.2.2.5 A/B)
							authCase(flags|fOEM, ti, u, pw, d, "Workstation", sc, "fixed", "fixed")
						}
					}
					i++
				}
			}
		}
	}
	shapedPw := append(append([]string{}, gen.ShapedSecrets()...), fixedPasswords...)
	for _, ess := range []bool{false, true} {
		for _, uni := range []bool{true, false} {
			flags := base | fTargetInfo
			if ess {
				flags |= fESS
			}
			if uni {
				flags |= fUnicode
			} else {
				flags |= fOEM
			}
			ti := encodeAV(tiSets[2])
			for ui, u := range append(gen.ShapedUsers(), "user", "") {
				for di, d := range append([]string{"", "CORP"}, gen.ShapedDomains()[1+ui%5:][:4]...) {
					if !uni && (!isASCII7(u) || !isASCII7(d)) {
						continue
					}
					var sc [8]byte
					copy(sc[:], fixedChallenges[(i+di)%len(fixedChallenges)])
					authCase(flags, ti, u, shapedPw[i%len(shapedPw)], d, "Workstation", sc, "shaped", "shaped")
					i++
				}
			}
			for _, pw := range gen.ShapedSecrets() {
				var sc [8]byte
				copy(sc[:], fixedChallenges[i%len(fixedChallenges)])
				authCase(flags, ti, "User", pw, "Domain", "WS", sc, "shaped", "shaped")
				i++
			}
		}
	}
	n := r.Pick(30000, 800000)
	for t := 0; t < n; t++ {
		flags := base
		uni := rng.IntN(3) != 0
		if uni {
			flags |= fUnicode
			if rng.IntN(5) == 0 {
				flags |= fOEM
			}
		} else {
			flags |= fOEM
		}
		if rng.IntN(2) == 0 {
			flags |= fESS
		}
		if rng.IntN(2) == 0 {
			flags |= fVersion
		}
		var ti []byte
		if rng.IntN(3) != 0 {
			flags |= fTargetInfo
			var ps []avPair
			for _, id := range rng.Perm(10)[:rng.IntN(7)] {
				vl := 2 * rng.IntN(20)
				if rng.IntN(4) == 0 {
					vl++ // a value of odd length (an id this client does not know): the list, and all that follows it, starts on an odd offset
				}
				ps = append(ps, avPair{uint16(id + 1), gen.Bytes(rng, vl)})
			}
			ti = encodeAV(ps)
		}
		us, ds := rng.IntN(len(scripts)+1)-1, rng.IntN(len(scripts)+1)-1
		user, usn := genName(rng, gen.Length(rng, 20), us, rng.IntN(4), !uni)
		dom, dsn := genName(rng, gen.Length(rng, 15), ds, rng.IntN(4), !uni)
		ws, _ := genName(rng, gen.Length(rng, 15), 0, rng.IntN(4), true)
		var pw string
		if rng.IntN(2) == 0 {
			pw = gen.ASCII7(rng, rng.IntN(20))
		} else {
			pw = gen.UnicodeString(rng, gen.Length(rng, 30), -1)
		}
		var sc [8]byte
		copy(sc[:], gen.Bytes(rng, 8))
		authCase(flags, ti, user, pw, dom, ws, sc, usn, dsn)
		if t%(n/3+1) == 0 {
			r.Sample(map[string]any{"kind": "authenticate", "flags": fmt.Sprintf("%#08x", flags), "user": user, "domain": dom, "password": pw, "server_challenge": hx(sc[:])})
		}
	}
}

// ---------------------------------------------------------------- anchors -----

// anchors validates the references against the worked examples of MS-NLMP §4.2
// (User "User", UserDom "Domain", Passwd "Password", challenge 0123456789abcdef,
// client challenge aa*8). A reference that fails them makes the run inconclusive.
func anchors() {
	sc := fixedChallenges[2]
	nt := ref.NTHash("Password")
	if hx(nt[:]) != "a4f49c406510bdcab6824ee7c30fd852" {
		r.Inconclusive("reference NTOWFv1 fails MS-NLMP 4.2.2.1.2")
	}
	if hx(ref.LMHash("Password")) != "e52cac67419a9a224a3b108f3fa6cb6d" {
		r.Inconclusive("reference LMOWFv1 fails MS-NLMP 4.2.2.1.1")
	}
	if hx(expectNTv1(nt, sc)) != "67c43011f30298a2ad35ece64f16331c44bdbed927841f94" {
		r.Inconclusive("reference NTLMv1 response fails MS-NLMP 4.2.2.2.1: " + hx(expectNTv1(nt, sc)))
	}
	if hx(expectLMv1("Password", sc)) != "98def7b87f88aa5dafe2df779688a172def11c7d5ccdef13" {
		r.Inconclusive("reference LMv1 response fails MS-NLMP 4.2.2.2.2: " + hx(expectLMv1("Password", sc)))
	}
	key := ref.NTOWFv2(nt, "User", "Domain")
	if hx(key) != "0c868a403bfd7a93a3001ef22ef02e3f" {
		r.Inconclusive("reference NTOWFv2 fails MS-NLMP 4.2.4.1.1: " + hx(key))
	}
	cc := bytes.Repeat([]byte{0xaa}, 8)
	lmv2 := append(ref.HMACMD5(key, sc, cc), cc...)
	if hx(lmv2) != "86c35097ac9cec102554764a57cccc19aaaaaaaaaaaaaaaa" {
		r.Inconclusive("reference LMv2 response fails MS-NLMP 4.2.4.2.1: " + hx(lmv2))
	}
	if len(verifyLMv2(lmv2, sc, key)) != 0 {
		r.Inconclusive("verifier rejects the MS-NLMP LMv2 example")
	}
	// the verifier must accept a response built from the definition and reject tampering
	blob := append([]byte{1, 1, 0, 0, 0, 0, 0, 0, 0, 0, 0, 0, 0, 0, 0, 0}, cc...)
	blob = append(blob, 0, 0, 0, 0)
	blob = append(blob, encodeAV([]avPair{{2, ref.UTF16LE("Domain")}, {1, ref.UTF16LE("Server")}})...)
	blob = append(blob, 0, 0, 0, 0)
	resp := append(ref.HMACMD5(key, sc, blob), blob...)
	if hx(resp[:16]) != "68cd0ab851e51c96aabc927bebef6a1c" {
		r.Inconclusive("reference NTProofStr fails MS-NLMP 4.2.4.2.2: " + hx(resp[:16]))
	}
	if res := verifyNTLMv2(resp, sc, key, nil); len(res.Problems) != 0 {
		r.Inconclusive(fmt.Sprintf("verifier rejects the MS-NLMP NTLMv2 example: %v", res.Problems))
	}
	resp[20] ^= 1
	if res := verifyNTLMv2(resp, sc, key, nil); len(res.Problems) == 0 {
		r.Inconclusive("verifier accepts a tampered blob")
	}
}

// concurrentCallers: the response functions are pure, so unrelated callers on different
// goroutines must get the same values as a single caller (no shared scratch state).
func concurrentCallers() {
	var wg sync.WaitGroup
	G := 8
	per := r.Pick(1500, 20000)
	for g := 0; g < G; g++ {
		wg.Add(1)
		go func(g int) {
			defer wg.Done()
			rng := r.Rand(fmt.Sprintf("concurrent|%d", g))
			for i := 0; i < per; i++ {
				k7 := make([]byte, 7)
				for j := range k7 {
					k7[j] = byte(rng.UintN(256))
				}
				checkParityAdjust(k7, "concurrent")
				var nt [16]byte
				for j := range nt {
					nt[j] = byte(rng.UintN(256))
				}
				sc := make([]byte, 8)
				for j := range sc {
					sc[j] = byte(rng.UintN(256))
				}
				ntlmv1Case("", false, nt, sc, i%3, callOrders[i%len(callOrders)], fmt.Sprintf("v1|concurrent|%d", g))
				if i%8 == 0 {
					var s8, c8 [8]byte
					copy(s8[:], sc)
					copy(c8[:], k7)
					ntlmv2Case(fixedUsers[i%len(fixedUsers)], fixedDomains[(i/3)%len(fixedDomains)], fixedPasswords[i%len(fixedPasswords)], s8, c8, "c", "c")
				}
			}
		}(g)
	}
	wg.Wait()
	r.Count("concurrent_caller_goroutines", G)
}

var blobClock atomic.Int64

func main() {
	r = mon.Start("C02", "exploration")
	// the clock behind the NTLMv2 client blob advances one second on every reading: a message
	// built from two readings carries a proof over another blob than the one it sends
	ntlm.VerifClock = func(time.Time) time.Time { return time.Unix(1700000000+blobClock.Add(1), 0) }
	r.Rule("ParityBit on all 256 byte values and ParityAdjust on every 7-bit group value at each of the 8 group positions over three backgrounds are enumerated completely (exhaustive sub-domains); the rest is sampled: NTLMv1 responses from passwords and raw NT hashes through Hash/String/NTResponse/LMResponse in several call orders and memory layouts, NTLMv2 through NewNTLMv2/Hash/HashHex/ToHashcatString, AUTHENTICATE messages of ntlm.CreateAuthenticateMessage with/without EXTENDED_SESSIONSECURITY, Unicode/OEM, VERSION, target info. State carried between calls: every returned response / key / message is held in a ring of 64 per entry point beside a private copy and re-compared after each later call (also from the 8 concurrent callers) and at the end; ParityAdjust, the NTLMv1 calls and CreateAuthenticateMessage must leave the caller's key, hash, challenge and target-info bytes (and the bytes behind those slices) unchanged; ServerChallenge/NTHash (NTLMv1) and all input fields (NTLMv2) are set directly on a used object and the next Hash/NTResponse/String/HashHex/ToHashcatString must answer the current fields; one ChallengeMessage serves two AUTHENTICATE messages with different credentials. Non-trivial: a distinct (entry point, case class of user, case class of domain, script of user, script of domain) with a non-empty domain containing a cased letter; a distinct NTLMv1 (credential kind, length/hash prefix, challenge, layout) tuple; a distinct parity group case.")
	r.SetExhaustive(true)
	r.Assume(
		"crypto/des, crypto/md5, crypto/hmac of the Go standard library are correct; MD4 is the harness's RFC 1320 transcription (checked against x/crypto in C01)",
		"upper-casing in the verifier uses Go's strings.ToUpper (simple case mapping), the only table available offline",
		"references are anchored on the MS-NLMP 4.2 worked examples; if an anchor fails the run is inconclusive",
		"LM responses are judged only for 7-bit ASCII passwords (OEM code page dependent otherwise)",
		"the timestamp value inside the NTLMv2 blob is not judged; 0 or 4 zero bytes may follow MsvAvEOL",
		"users/domains containing ':' are not exported to the hashcat form",
		"the AUTHENTICATE verifier reads UserName/DomainName from the message like a server; the letter case of the domain in the message is not judged",
		"'exhaustive' refers only to the two parity sub-domains named in the rule",
	)
	// race side run (./check builds this monitor with -race): only the workloads in which goroutines
	// use the library at the same time; the detector's reports are filed by Finish
	if mon.SideRace() {
		concurrentCallers()
		sharedReaders()
		r.Finish()
	}
	anchors()
	parity()
	ntlmv1All()
	ntlmv2All()
	authAll()
	carryOver()
	concurrentCallers()
	sharedReaders()
	literalObjects()
	heldFinal()
	r.Finish()
}
