// The "verifier that knows the password" of C02 (also used by C08's end-to-end
// leg). MS-NLMP §3.3.1 (NTLM v1) and §3.3.2 (NTLM v2). Kept byte-identical in
// harness/c02 and harness/c08.
package main

import (
	"bytes"
	"encoding/binary"
	"fmt"
	"strings"

	"verif/ref"
)

func isASCII7(s string) bool {
	for i := 0; i < len(s); i++ {
		if s[i] >= 0x80 || s[i] == 0 {
			return false
		}
	}
	return true
}

// expectNTv1 / expectLMv1: DESL(hash, challenge).
func expectNTv1(nt [16]byte, sc []byte) []byte { return ref.DESL(nt[:], sc) }
func expectLMv1(pw string, sc []byte) []byte   { return ref.DESL(ref.LMHash(pw), sc) }

// altKey names a wrong key under which a rejected proof would have verified.
type altKey struct {
	Name string
	Key  []byte
}

type v2Result struct {
	Problems  []problem
	CC        []byte
	Pairs     []avPair
	Timestamp uint64
}

// verifyNTLMv2 accepts resp iff resp[0:16] == HMAC-MD5(key, sc || resp[16:]) and
// resp[16:] is a well-formed NTLMv2_CLIENT_CHALLENGE. key is NTOWFv2. altKeys
// are tried only to name the failure class (e.g. "domain-uppercased").
func verifyNTLMv2(resp, sc, key []byte, altKeys []altKey) v2Result {
	var res v2Result
	add := func(c, f, d string) { res.Problems = append(res.Problems, problem{c, f, d}) }
	if len(resp) < 16+28+4 {
		add("response", "short", fmt.Sprintf("%d bytes", len(resp)))
		return res
	}
	proof, blob := resp[:16], resp[16:]
	if want := ref.HMACMD5(key, sc, blob); !bytes.Equal(proof, want) {
		cls := "mismatch"
		for _, a := range altKeys {
			if cls == "mismatch" && bytes.Equal(proof, ref.HMACMD5(a.Key, sc, blob)) {
				cls = a.Name
			}
		}
		if cls == "mismatch" && bytes.Equal(proof, ref.HMACMD5(key, blob)) {
			cls = "server-challenge-not-covered"
		}
		add("proof", cls, fmt.Sprintf("NTProofStr %x, verifier computes %x", proof, want))
	}
	if blob[0] != 1 || blob[1] != 1 {
		add("blob", "resptype", fmt.Sprintf("RespType=%d HiRespType=%d", blob[0], blob[1]))
	}
	if !bytes.Equal(blob[2:8], make([]byte, 6)) {
		add("blob", "reserved1-2", fmt.Sprintf("%x", blob[2:8]))
	}
	res.Timestamp = binary.LittleEndian.Uint64(blob[8:16])
	res.CC = blob[16:24]
	if !bytes.Equal(blob[24:28], make([]byte, 4)) {
		add("blob", "reserved3", fmt.Sprintf("%x", blob[24:28]))
	}
	pairs, rest, ok := parseAV(blob[28:])
	res.Pairs = pairs
	if !ok {
		add("blob", "avpairs", fmt.Sprintf("bytes after Reserved3 are not an AV_PAIR list terminated by MsvAvEOL: %s", hexShort(blob[28:])))
	} else if !(len(rest) == 0 || (len(rest) == 4 && bytes.Equal(rest, make([]byte, 4)))) {
		add("blob", "trailing", fmt.Sprintf("%d bytes after MsvAvEOL: %s", len(rest), hexShort(rest)))
	}
	return res
}

// verifyLMv2: 24 bytes, HMAC-MD5(key, sc || cc) || cc.
func verifyLMv2(resp, sc, key []byte) []problem {
	if len(resp) != 24 {
		return []problem{{"lmv2", "length", fmt.Sprintf("%d bytes", len(resp))}}
	}
	if want := ref.HMACMD5(key, sc, resp[16:]); !bytes.Equal(resp[:16], want) {
		return []problem{{"lmv2", "proof", fmt.Sprintf("got %x want %x", resp[:16], want)}}
	}
	return nil
}

func hexShort(b []byte) string {
	if len(b) > 48 {
		return fmt.Sprintf("%x…(+%d)", b[:48], len(b)-48)
	}
	return fmt.Sprintf("%x", b)
}

// serverVerifyAuthenticate behaves like a server that knows the password: it
// reads UserName and DomainName from the message itself and checks the
// responses it carries. ess selects NTLMv2 (the library's rule) or NTLMv1.
func serverVerifyAuthenticate(m *parsedMsg, sc []byte, password string, ess bool) (problems []problem, v2 v2Result) {
	nt := ref.NTHash(password)
	ntResp, lmResp := m.Fields["NtChallengeResponse"], m.Fields["LmChallengeResponse"]
	if !ess {
		if want := expectNTv1(nt, sc); !bytes.Equal(ntResp, want) {
			problems = append(problems, problem{"ntlmv1", "nt-response", fmt.Sprintf("got %x want DESL(NT hash, challenge)=%x", ntResp, want)})
		}
		if isASCII7(password) {
			if want := expectLMv1(password, sc); !bytes.Equal(lmResp, want) {
				problems = append(problems, problem{"ntlmv1", "lm-response", fmt.Sprintf("got %x want DESL(LM hash, challenge)=%x", lmResp, want)})
			}
		}
		return
	}
	user, ok1 := decodeName(m.Fields["UserName"], m.Flags)
	dom, ok2 := decodeName(m.Fields["DomainName"], m.Flags)
	if !ok1 || !ok2 {
		problems = append(problems, problem{"ntlmv2", "names-undecodable", ""})
		return
	}
	key := ref.NTOWFv2(nt, user, dom)
	v2 = verifyNTLMv2(ntResp, sc, key, []altKey{
		{"domain-uppercased-in-key-only", ref.NTOWFv2(nt, user, strings.ToUpper(dom))},
		{"user-not-uppercased-in-key", ref.HMACMD5(nt[:], ref.UTF16LE(user+dom))},
	})
	problems = append(problems, v2.Problems...)
	problems = append(problems, verifyLMv2(lmResp, sc, key)...)
	return
}
