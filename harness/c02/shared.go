package main

// One finished credential object read by several goroutines at once, and credential objects
// written as struct literals.

import (
	"bytes"
	"fmt"
	"sync"

	"github.com/TheManticoreProject/Manticore/crypto/ntlmv1"
	"github.com/TheManticoreProject/Manticore/crypto/ntlmv2"

	"verif/gen"
	"verif/mon"
	"verif/ref"
)

// sharedReaders: the constructors return a finished object; computing a response from it reads it.
// Several goroutines that compute responses from the same object at the same time (their first
// calls included) each get the response of that credential.
func sharedReaders() {
	const G = 8
	rng := r.Rand("shared-readers")
	for run := 0; run < r.Pick(150, 3000); run++ {
		sc := gen.Bytes(rng, 8)
		pw := fixedPasswords[run%len(fixedPasswords)]
		if run%4 == 3 {
			pw = gen.ASCII7(rng, 1+rng.IntN(14))
		}
		nt := ref.NTHash(pw)
		var h *ntlmv1.NTLMv1
		var err error
		withPw := run%2 == 0
		if withPw {
			h, err = ntlmv1.NewNTLMv1WithPassword("DOM", "user", pw, append([]byte{}, sc...))
		} else {
			h, err = ntlmv1.NewNTLMv1WithNTHash("DOM", "user", append([]byte{}, nt[:]...), append([]byte{}, sc...))
		}
		if err != nil || h == nil {
			continue
		}
		wantNT := expectNTv1(nt, sc)
		var wantLM []byte
		if withPw && isASCII7(pw) {
			wantLM = expectLMv1(pw, sc)
		}
		cs := map[string]any{"password": pw, "with_password": withPw, "nt_hash": hx(nt[:]), "server_challenge": hx(sc), "goroutines": G}
		var mu sync.Mutex
		problems := map[string]string{}
		start := make(chan struct{})
		var wg sync.WaitGroup
		for g := 0; g < G; g++ {
			wg.Add(1)
			go func(g int) {
				defer wg.Done()
				<-start
				for i := 0; i < 6; i++ {
					k := (g + i) % 4
					name, want := "LMResponse", wantLM
					var got []byte
					var e error
					var p bool
					var v any
					if k < 3 {
						name, want = v1calls[k].name, wantNT
						p, v, _ = mon.Guard(func() { got, e = v1calls[k].f(h) })
					} else {
						if wantLM == nil {
							continue
						}
						p, v, _ = mon.Guard(func() { got, e = h.LMResponse() })
					}
					what := ""
					switch {
					case p:
						what = fmt.Sprintf("panic %v", v)
					case e != nil:
						what = fmt.Sprintf("error %v", e)
					case !bytes.Equal(got, want):
						what = fmt.Sprintf("%x, want %x", got, want)
					}
					if what != "" {
						mu.Lock()
						if _, seen := problems[name]; !seen {
							problems[name] = what
						}
						mu.Unlock()
					}
				}
			}(g)
		}
		close(start)
		wg.Wait()
		r.Eval(G * 6)
		for name, what := range problems {
			r.Violation("ntlmv1."+name+":shared-object-concurrent-readers", fmt.Sprintf("%d goroutines computing responses from one finished object: %s gave %s", G, name, what), cs)
		}
		r.Nontrivial(fmt.Sprintf("shared-v1|%v|%d", withPw, run%50))

		// NTLMv2: the same with Hash / HashHex / ToHashcatString of one object
		if run%3 == 0 {
			var s8, c8 [8]byte
			copy(s8[:], sc)
			copy(c8[:], gen.Bytes(rng, 8))
			user, dom := fixedUsers[run%len(fixedUsers)], fixedDomains[(run/3)%len(fixedDomains)]
			h2, err := ntlmv2.NewNTLMv2(dom, user, pw, s8, c8)
			if err != nil || h2 == nil {
				continue
			}
			cs2 := map[string]any{"user": user, "domain": dom, "password": pw, "server_challenge": hx(s8[:]), "client_challenge": hx(c8[:]), "goroutines": G}
			start2 := make(chan struct{})
			for g := 0; g < G; g++ {
				wg.Add(1)
				go func(g int) {
					defer wg.Done()
					<-start2
					for i := 0; i < 3; i++ {
						var resp []byte
						var e error
						p, v, _ := mon.Guard(func() { resp, e = h2.Hash() })
						switch {
						case p:
							r.Violation("ntlmv2.Hash:shared-object-concurrent-readers:panic", fmt.Sprintf("panic %v", v), cs2)
						case e != nil:
							r.Violation("ntlmv2.Hash:shared-object-concurrent-readers:error", fmt.Sprint(e), cs2)
						default:
							checkV2Response("ntlmv2.Hash:shared-object-concurrent-readers", resp, nt, user, dom, s8, c8, cs2)
						}
					}
				}(g)
			}
			close(start2)
			wg.Wait()
			r.Eval(G * 3)
			r.Nontrivial(fmt.Sprintf("shared-v2|%d", run%50))
		}
	}
}

// literalObjects: a credential written as a struct literal with a password and no NT hash (nil,
// or an empty slice: both say "not set") gets the response of its password from Hash / String,
// or an error; never a response without an error that belongs to another hash.
func literalObjects() {
	rng := r.Rand("literals")
	for run := 0; run < r.Pick(200, 4000); run++ {
		sc := gen.Bytes(rng, 8)
		pw := fixedPasswords[1+run%(len(fixedPasswords)-1)]
		if run%3 == 2 {
			pw = gen.ASCII7(rng, 1+rng.IntN(14))
		}
		if pw == "" {
			continue
		}
		backing := make([]byte, 16)
		var empty []byte
		form := []string{"nil", "empty-non-nil", "zero-length-window-of-a-buffer"}[run%3]
		switch run % 3 {
		case 1:
			empty = []byte{}
		case 2:
			empty = backing[:0]
		}
		nt := ref.NTHash(pw)
		want := expectNTv1(nt, sc)
		cs := map[string]any{"password": pw, "server_challenge": hx(sc), "nt_hash_field": form}
		for ci := range []int{0, 2} {
			c := v1calls[[]int{0, 2}[ci]]
			h := &ntlmv1.NTLMv1{Domain: "DOM", Username: "user", Password: pw, ServerChallenge: append([]byte{}, sc...), NTHash: empty}
			var got []byte
			var e error
			p, v, st := mon.Guard(func() { got, e = c.f(h) })
			r.Eval(1)
			switch {
			case p:
				r.Violation("ntlmv1.literal."+c.name+":panic:"+mon.PanicClass(v), fmt.Sprintf("panic %v at %s", v, mon.TopLibFrame(st)), cs)
			case e != nil || len(got) == 0:
				r.Count("ntlmv1_literal_objects_refused", 1)
			case !bytes.Equal(got, want):
				r.Violation("ntlmv1.literal."+c.name+":response", fmt.Sprintf("object {Password:%q NTHash:%s}: %s=%x without error, DESL(NT hash of the password, challenge)=%x", pw, form, c.name, got, want), cs)
			}
		}
		r.Nontrivial(fmt.Sprintf("literal|%s|%d", form, len(pw)))
	}
}
