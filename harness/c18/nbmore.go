package main

// More NBNS request shapes: NM_FLAGS a requester sets, several questions in one packet, and
// stream requests of every size class.

import (
	"bytes"
	"encoding/binary"
	"encoding/hex"
	"fmt"
	"io"
	"net"
	"sync"
	"time"

	"github.com/TheManticoreProject/Manticore/network/netbios/nbtns"

	"verif/mon"
)

func nbQueryPacket(id, flags uint16, qs []nbtns.NBTNSQuestion, extra []nbtns.NBTNSResourceRecord) []byte {
	p := &nbtns.NBTNSPacket{Header: nbtns.NBTNSHeader{TransactionID: id, Flags: flags, Questions: uint16(len(qs)), Additional: uint16(len(extra))}, Questions: qs, Additional: extra}
	b, err := p.Marshal()
	if err != nil {
		panic(err)
	}
	return b
}

// nbRequesterFlags: RD and B are the requester's business (recursion desired, broadcast). What a
// server says about a name — found or not, unique or group, the records — is the same whichever
// of them the request carried; only those two bits themselves may be echoed.
func nbRequesterFlags(kind string) {
	srv, table, err := newNB(kind)
	if err != nil {
		inconclusive("requester-flags/" + kind + ": " + err.Error())
		return
	}
	tr.reset(0)
	if err := srv.Start(); err != nil {
		inconclusive("requester-flags/" + kind + ": start: " + err.Error())
		return
	}
	defer within(progressLimit, srv.Stop)
	addr := srv.VerifAddr()
	table.RegisterName("RFUNIQUE", nbtns.Unique, net.IP{10, 11, 0, 1}, time.Hour)
	for k := 0; k < 3; k++ {
		table.RegisterName("RFGROUP", nbtns.Group, net.IP{10, 11, 1, byte(1 + k)}, time.Hour)
	}
	id := uint16(0x5100)
	for _, name := range []string{"RFUNIQUE", "RFGROUP", "RFABSENT"} {
		var first []byte
		var firstBg uint16
		for _, bg := range []uint16{0x0000, 0x0010, 0x0100, 0x0110} {
			id++
			pkt := nbQueryPacket(id, bg, []nbtns.NBTNSQuestion{{Name: &nbtns.NetBIOSName{Name: name}, Type: 0x20, Class: 1}}, nil)
			raw, ok := nbExchange(kind, addr, pkt)
			evals.Add(1)
			if !ok || len(raw) < 12 {
				count("requester_flag_probes_unanswered", 1)
				continue
			}
			cs := map[string]any{"server": kind, "name": name, "request_flags": fmt.Sprintf("%#04x", bg), "response": hex.EncodeToString(raw)}
			if binary.BigEndian.Uint16(raw) != id {
				viol("nbns."+kind+":requester-flags:wrong-id", "response carries another transaction id", cs)
				continue
			}
			norm := append([]byte{}, raw[2:]...)
			binary.BigEndian.PutUint16(norm, binary.BigEndian.Uint16(norm)&^0x0110)
			if first == nil {
				first, firstBg = norm, bg
				continue
			}
			if !bytes.Equal(norm, first) {
				viol("nbns."+kind+":requester-flags:answer-differs", fmt.Sprintf("the answer for %s differs between a request with NM_FLAGS %#04x and one with %#04x beyond the echoed bits: flags %#04x vs %#04x, %d vs %d octets",
					name, firstBg, bg, binary.BigEndian.Uint16(first), binary.BigEndian.Uint16(norm), len(first)+2, len(norm)+2), cs)
			}
			nontrivial(fmt.Sprintf("requester-flags|%s|%s|%#x", kind, name, bg))
		}
	}
}

// nbMultiQuestion: a query packet with several questions is answered question by question: the
// records for question i repeat that question's own name, scope, type and class.
func nbMultiQuestion(kind string) {
	srv, table, err := newNB(kind)
	if err != nil {
		inconclusive("multi-question/" + kind + ": " + err.Error())
		return
	}
	tr.reset(0)
	if err := srv.Start(); err != nil {
		inconclusive("multi-question/" + kind + ": start: " + err.Error())
		return
	}
	defer within(progressLimit, srv.Stop)
	addr := srv.VerifAddr()
	ipOf := map[string]net.IP{"MQONE": {10, 12, 0, 1}, "MQTWO": {10, 12, 0, 2}, "MQTHREE": {10, 12, 0, 3}}
	for n, ip := range ipOf {
		table.RegisterName(n, nbtns.Unique, ip, time.Hour)
	}
	q := func(name, scope string, ty, cl uint16) nbtns.NBTNSQuestion {
		return nbtns.NBTNSQuestion{Name: &nbtns.NetBIOSName{Name: name, ScopeID: scope}, Type: ty, Class: cl}
	}
	sets := [][]nbtns.NBTNSQuestion{
		{q("MQONE", "", 0x20, 1), q("MQTWO", "", 0x20, 1)},
		{q("MQONE", "", 0x20, 1), q("MQONE", "", 0x21, 1)},
		{q("MQONE", "", 0x20, 1), q("MQONE", "", 0x20, 3)},
		{q("MQONE", "", 0x20, 1), q("MQONE", "corp.example", 0x20, 1)},
		{q("MQONE", "a.example", 0x21, 1), q("MQTWO", "", 0x20, 1), q("MQONE", "b.example", 0x20, 255)},
		{q("MQTWO", "", 0x20, 1), q("MQONE", "", 0x20, 1), q("MQTWO", "", 0x0A, 1), q("MQTHREE", "", 0x20, 1)},
		{q("MQONE", "", 0x20, 1), q("MQONE", "", 0x20, 1)},
	}
	id := uint16(0x5200)
	for si, qs := range sets {
		id++
		raw, ok := nbExchange(kind, addr, nbQueryPacket(id, 0x0110, qs, nil))
		evals.Add(1)
		if !ok {
			count("multi_question_probes_unanswered", 1)
			continue
		}
		var resp nbtns.NBTNSPacket
		var uerr error
		p, _, _ := mon.Guard(func() { _, uerr = resp.Unmarshal(raw) })
		var asked []string
		for _, x := range qs {
			asked = append(asked, fmt.Sprintf("%s.%s type %#x class %d", x.Name.Name, x.Name.ScopeID, x.Type, x.Class))
		}
		cs := map[string]any{"server": kind, "questions": asked, "response": hex.EncodeToString(raw)}
		if p || uerr != nil {
			viol("nbns."+kind+":multi-question:response-unparseable", fmt.Sprintf("the library's own decoder cannot read the response: %v", uerr), cs)
			continue
		}
		if resp.Header.TransactionID != id {
			viol("nbns."+kind+":multi-question:wrong-id", "response carries another transaction id", cs)
			continue
		}
		if resp.Header.Flags&0x000F != 0 || len(resp.Answers) != len(qs) {
			// how many of several questions a server answers is its choice; what it answers is judged
			count("multi_question_responses_not_one_record_per_question", 1)
			continue
		}
		for i, a := range resp.Answers {
			x := qs[i]
			if a.Name == nil || a.Name.Name != x.Name.Name || a.Name.ScopeID != x.Name.ScopeID || a.Type != x.Type || a.Class != x.Class || !bytes.Equal(a.RData, ipOf[x.Name.Name]) {
				got := "<nil>"
				if a.Name != nil {
					got = fmt.Sprintf("%s.%s type %#x class %d -> %v", a.Name.Name, a.Name.ScopeID, a.Type, a.Class, net.IP(a.RData))
				}
				viol("nbns."+kind+":multi-question:record-of-another-question", fmt.Sprintf("record %d of the response answers question %d (%s) with %s", i, i, asked[i], got), cs)
				break
			}
		}
		nontrivial(fmt.Sprintf("multi-question|%s|%d", kind, si))
	}
}

// nbStreamSizes: requests of every size class on one connection (the 16-bit length prefix allows
// 65535 octets), each followed by an ordinary request: both are answered, in order, under their ids.
func nbStreamSizes() {
	const kind = "TCPServer"
	srv, table, err := newNB(kind)
	if err != nil {
		inconclusive("stream-sizes: " + err.Error())
		return
	}
	tr.reset(0)
	if err := srv.Start(); err != nil {
		inconclusive("stream-sizes: start: " + err.Error())
		return
	}
	defer within(progressLimit, srv.Stop)
	table.RegisterName("SZHELD", nbtns.Unique, net.IP{10, 13, 0, 1}, time.Hour)
	table.RegisterName("SZNEXT", nbtns.Unique, net.IP{10, 13, 0, 2}, time.Hour)
	sizes := []int{100, 255, 256, 511, 512, 513, 576, 1023, 1024, 1025, 1500, 2047, 2048, 2049, 4095, 4096, 4097, 8191, 8192, 8193, 12288, 16383, 16384, 16385, 32767, 32768, 32769, 65534, 65535}
	id := uint16(0x5300)
	for _, size := range sizes {
		n := &nbtns.NetBIOSName{Name: "SZHELD"}
		mk := func(pad int) []byte {
			return nbQueryPacket(id+1, 0x0100, []nbtns.NBTNSQuestion{{Name: n, Type: 0x20, Class: 1}},
				[]nbtns.NBTNSResourceRecord{{Name: &nbtns.NetBIOSName{Name: "SZPAD"}, Type: 0x0A, Class: 1, TTL: 0, RDLength: uint16(pad), RData: bytes.Repeat([]byte{0x5A}, pad)}})
		}
		base := len(mk(0))
		if size < base {
			continue
		}
		id += 2
		big := mk(size - base)
		binary.BigEndian.PutUint16(big, id-1)
		if len(big) != size {
			inconclusive(fmt.Sprintf("stream-sizes: built %d octets for size %d", len(big), size))
			continue
		}
		cs := map[string]any{"request_octets": size}
		conn, err := net.Dial("tcp4", srv.VerifAddr().String())
		if err != nil {
			count("stream_size_probes_not_connected", 1)
			continue
		}
		conn.Write(append(nbFrame(big), nbFrame(nbQuery(id, "SZNEXT"))...))
		outstanding := map[uint16]nbReq{id - 1: {id: id - 1, name: "SZHELD", ip: net.IP{10, 13, 0, 1}}, id: {id: id, name: "SZNEXT", ip: net.IP{10, 13, 0, 2}}}
		answered := map[uint16]bool{}
		for k := 0; k < 2; k++ {
			conn.SetReadDeadline(time.Now().Add(20 * time.Second))
			var l [2]byte
			var b []byte
			_, rerr := io.ReadFull(conn, l[:])
			if rerr == nil {
				b = make([]byte, int(l[0])<<8|int(l[1]))
				_, rerr = io.ReadFull(conn, b)
			}
			evals.Add(1)
			if ne, isNet := rerr.(net.Error); isNet && ne.Timeout() {
				// the connection is still open and nothing came within the watchdog: not a verdict
				inconclusive(fmt.Sprintf("stream-sizes: no response within 20 s to a request of %d octets (connection still open)", size))
				break
			}
			if rerr != nil {
				viol("nbns.TCPServer:request-size:unanswered", fmt.Sprintf("a well-formed request of %d octets followed by an ordinary one on the same connection: response #%d never came (%v)", size, k, rerr), cs)
				break
			}
			judgeNB(kind, fmt.Sprintf("stream-sizes/%d", size), b, outstanding, answered)
		}
		conn.Close()
		nontrivial(fmt.Sprintf("stream-size|%d", size))
	}
	count("stream_request_sizes_tried", len(sizes))
}

// nbRedirects: a redirect table filled once, then read by several goroutines that each build the
// redirect response for their own request. Each response names its own question, carries the
// address and port of its scope's entry, and keeps them; the address the caller handed to
// AddRedirect (a window of a larger buffer included) is not written to.
func nbRedirects() {
	const G = 8
	rm := nbtns.NewRedirectManager()
	type ent struct {
		scope string
		ip    net.IP
		port  uint16
	}
	callerBuf := bytes.Repeat([]byte{0xEE}, 64) // the caller's own memory around one of the addresses
	copy(callerBuf[8:], []byte{10, 20, 30, 40})
	ents := []ent{
		{"corp.example", net.IP{10, 1, 2, 3}, 137},
		{"lab.example", net.ParseIP("10.9.8.7"), 0x1234},
		{"dmz.example", net.ParseIP("10.9.8.6").To4(), 65535},
		{"v6.example", net.ParseIP("2001:db8::5"), 1},
		{"window.example", net.IP(callerBuf[8:12]), 0xABCD},
		{"", net.IP{192, 168, 0, 1}, 138},
	}
	for _, e := range ents {
		rm.AddRedirect(e.scope, e.ip, e.port)
	}
	type kept struct {
		rdata, want []byte
		scope       string
	}
	var mu sync.Mutex
	var all []kept
	var wg sync.WaitGroup
	start := make(chan struct{})
	for g := 0; g < G; g++ {
		wg.Add(1)
		go func(g int) {
			defer wg.Done()
			<-start
			for i := 0; i < pick(200, 2000); i++ {
				e := ents[(g+i)%len(ents)]
				qn := &nbtns.NetBIOSName{Name: fmt.Sprintf("RD%02dX%04d", g, i), ScopeID: e.scope}
				req := &nbtns.NBTNSPacket{Header: nbtns.NBTNSHeader{TransactionID: uint16(g<<12 | i), Flags: nbtns.OpNameQuery | 0x0110, Questions: 1},
					Questions: []nbtns.NBTNSQuestion{{Name: qn, Type: 0x20, Class: 1}}}
				resp := &nbtns.NBTNSPacket{Header: nbtns.NBTNSHeader{TransactionID: req.Header.TransactionID}}
				var handled bool
				p, pv, _ := mon.Guard(func() { handled = rm.HandleRedirect(req, resp) })
				evals.Add(1)
				cs := map[string]any{"scope": e.scope, "redirect_to": e.ip.String(), "port": e.port, "goroutines": G}
				want := append(append([]byte{}, e.ip...), byte(e.port>>8), byte(e.port))
				switch {
				case p:
					viol("nbns.RedirectManager.HandleRedirect:panic", fmt.Sprint(pv), cs)
				case !handled || len(resp.Additional) != 1:
					viol("nbns.RedirectManager.HandleRedirect:not-redirected", fmt.Sprintf("a query in scope %q, which has a redirect entry, was not redirected (handled=%v, %d additional records)", e.scope, handled, len(resp.Additional)), cs)
				case resp.Additional[0].Name == nil || resp.Additional[0].Name.Name != qn.Name || !bytes.Equal(resp.Additional[0].RData, want):
					viol("nbns.RedirectManager.HandleRedirect:record", fmt.Sprintf("redirect record for %s in scope %q carries %x, the entry of that scope is %x", qn.Name, e.scope, resp.Additional[0].RData, want), cs)
				default:
					if i%16 == 0 {
						mu.Lock()
						all = append(all, kept{resp.Additional[0].RData, want, e.scope})
						mu.Unlock()
					}
				}
			}
		}(g)
	}
	close(start)
	wg.Wait()
	for _, k := range all {
		if !bytes.Equal(k.rdata, k.want) {
			viol("nbns.RedirectManager.HandleRedirect:held-record-changed", fmt.Sprintf("a redirect record returned earlier for scope %q now reads %x (was %x)", k.scope, k.rdata, k.want), map[string]any{"scope": k.scope})
			break
		}
	}
	for i, b := range callerBuf {
		if (i < 8 || i >= 12) && b != 0xEE {
			viol("nbns.RedirectManager.HandleRedirect:caller-memory-written", fmt.Sprintf("the address given to AddRedirect was a 4-octet window of the caller's buffer; octet %d next to it was overwritten with %#02x", i-8, b), map[string]any{"buffer": hex.EncodeToString(callerBuf)})
			break
		}
	}
	nontrivial("redirects")
	count("redirect_responses_built", G*pick(200, 2000))
}

// nbSplitFrames: a request that reaches the stream server in pieces with pauses between them (the
// length prefix split in two, the prefix alone, the body in halves): TCP delivers octets, not
// frames. Each such request is answered; a connection closed instead is a violation, silence with
// the connection open is inconclusive.
func nbSplitFrames() {
	const kind = "TCPServer"
	srv, table, err := newNB(kind)
	if err != nil {
		inconclusive("split-frames: " + err.Error())
		return
	}
	tr.reset(0)
	if err := srv.Start(); err != nil {
		inconclusive("split-frames: start: " + err.Error())
		return
	}
	defer within(progressLimit, srv.Stop)
	table.RegisterName("SPLITHELD", nbtns.Unique, net.IP{10, 14, 0, 1}, time.Hour)
	id := uint16(0x5500)
	for ci, cuts := range [][]int{{1}, {2}, {1, 2}, {3}, {1, 2, 3, 10}, {2, 30}, {0}} {
		for rep := 0; rep < 2; rep++ {
			id++
			frame := nbFrame(nbQuery(id, "SPLITHELD"))
			conn, err := net.Dial("tcp4", srv.VerifAddr().String())
			if err != nil {
				count("split_frame_probes_not_connected", 1)
				continue
			}
			if tc, ok := conn.(*net.TCPConn); ok {
				tc.SetNoDelay(true)
			}
			prev := 0
			for _, c := range cuts {
				if c > prev && c < len(frame) {
					conn.Write(frame[prev:c])
					prev = c
					time.Sleep(15 * time.Millisecond)
				}
			}
			conn.Write(frame[prev:])
			conn.SetReadDeadline(time.Now().Add(20 * time.Second))
			var l [2]byte
			var b []byte
			_, rerr := io.ReadFull(conn, l[:])
			if rerr == nil {
				b = make([]byte, int(l[0])<<8|int(l[1]))
				_, rerr = io.ReadFull(conn, b)
			}
			evals.Add(1)
			cs := map[string]any{"request_written_in_pieces_cut_at": cuts}
			if ne, isNet := rerr.(net.Error); isNet && ne.Timeout() {
				inconclusive(fmt.Sprintf("split-frames: no response within 20 s to a request written in pieces cut at %v (connection still open)", cuts))
			} else if rerr != nil {
				viol("nbns.TCPServer:split-frame:unanswered", fmt.Sprintf("a well-formed request written in pieces cut at %v (15 ms apart) got no response: %v", cuts, rerr), cs)
			} else {
				judgeNB(kind, fmt.Sprintf("split-frames/%d", ci), b, map[uint16]nbReq{id: {id: id, name: "SPLITHELD", ip: net.IP{10, 14, 0, 1}}}, map[uint16]bool{})
			}
			conn.Close()
			nontrivial(fmt.Sprintf("split-frame|%d", ci))
		}
	}
}
