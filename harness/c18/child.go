package main

import (
	"bytes"
	"context"
	"encoding/binary"
	"encoding/hex"
	"encoding/json"
	"fmt"
	"io"
	"math/rand/v2"
	"net"
	"os"
	"runtime"
	"runtime/pprof"
	"strconv"
	"strings"
	"sync"
	"sync/atomic"
	"time"

	"github.com/TheManticoreProject/Manticore/network/llmnr"
	"github.com/TheManticoreProject/Manticore/network/netbios/nbtns"

	"verif/mon"
)

// ------------------------------------------------------------------ plumbing

var (
	outMu    sync.Mutex
	outF     *os.File
	thorough bool
	seed     int64
	evals    atomic.Int64
)

func emit(l childLine) {
	b, _ := json.Marshal(l)
	outMu.Lock()
	outF.Write(append(b, '\n'))
	outMu.Unlock()
}
func viol(key, what string, cs map[string]any) {
	emit(childLine{T: "v", Key: key, What: what, Case: cs})
}
func count(key string, n int)  { emit(childLine{T: "c", Key: key, N: int64(n)}) }
func nontrivial(fp string)     { emit(childLine{T: "nt", Key: fp}) }
func inconclusive(what string) { emit(childLine{T: "i", What: what}) }
func pick(q, t int) int {
	if thorough {
		return t
	}
	return q
}
func rng(stream string) *rand.Rand {
	return mon.NewRand(uint64(seed), "c18|"+stream+"|"+strconv.FormatBool(thorough))
}

// hook trace: events of the current scenario
type tracer struct {
	mu     sync.Mutex
	events []byte // 'r','h','s'
	mode   int    // 0 none, 1 yield at handle, 2 sleep 1-5ms at handle
	n      atomic.Int64
}

var tr = &tracer{}

func (t *tracer) hook(point string, id uint16) {
	c := byte('?')
	switch point {
	case "recv":
		c = 'r'
	case "handle":
		c = 'h'
	case "send":
		c = 's'
	}
	t.mu.Lock()
	if len(t.events) < 1<<16 {
		t.events = append(t.events, c)
	}
	mode := t.mode
	t.mu.Unlock()
	if point == "handle" {
		k := t.n.Add(1)
		switch mode {
		case 1:
			runtime.Gosched()
		case 2:
			time.Sleep(time.Duration(1+k%5) * time.Millisecond)
		}
	}
}
func (t *tracer) reset(mode int) {
	t.mu.Lock()
	t.events = t.events[:0]
	t.mode = mode
	t.mu.Unlock()
}

// signature summarises the interleaving: run-length pattern of the event string.
func (t *tracer) signature() (string, int) {
	t.mu.Lock()
	defer t.mu.Unlock()
	var sb strings.Builder
	maxOutstanding, outstanding := 0, 0
	for i, c := range t.events {
		if c == 'r' {
			outstanding++
		} else if c == 's' {
			outstanding--
		}
		if outstanding > maxOutstanding {
			maxOutstanding = outstanding
		}
		if i < 400 {
			sb.WriteByte(c)
		}
	}
	return sb.String(), maxOutstanding
}

func libGoroutines(pkgs ...string) (int, string) {
	var buf bytes.Buffer
	pprof.Lookup("goroutine").WriteTo(&buf, 2)
	n := 0
	var dump strings.Builder
	for _, g := range strings.Split(buf.String(), "\n\n") {
		for _, p := range pkgs {
			if strings.Contains(g, p) {
				n++
				dump.WriteString(g + "\n\n")
				break
			}
		}
	}
	d := dump.String()
	if len(d) > 6000 {
		d = d[:6000]
	}
	return n, d
}

// waitNoLibGoroutines polls (bounded) until no goroutine has a frame in pkgs.
func waitNoLibGoroutines(limit time.Duration, pkgs ...string) (int, string) {
	deadline := time.Now().Add(limit)
	for {
		n, d := libGoroutines(pkgs...)
		if n == 0 || time.Now().After(deadline) {
			return n, d
		}
		time.Sleep(20 * time.Millisecond)
	}
}

// within runs f and reports whether it returned within the bounded-progress limit.
func within(limit time.Duration, f func()) bool {
	done := make(chan struct{})
	go func() { f(); close(done) }()
	select {
	case <-done:
		return true
	case <-mon.AfterSteps(limit):
		return false
	}
}

const progressLimit = 20 * time.Second

// ------------------------------------------------------------------ NBNS helpers

type nbServer interface {
	Start() error
	Stop()
	VerifAddr() net.Addr
}

// newNBCalls alternates the constructors' "secured" option: nothing judged here depends on it.
var newNBCalls atomic.Int64

func newNB(kind string) (nbServer, *nbtns.NetBIOSNameServer, error) {
	secured := newNBCalls.Add(1)%2 == 0
	switch kind {
	case "Server":
		s, err := nbtns.NewServer("127.0.0.1:0", secured)
		if err != nil {
			return nil, nil, err
		}
		return s, s.VerifTable(), nil
	case "UDPServer":
		t := nbtns.NewNetBIOSNameServer(secured)
		s, err := nbtns.NewUDPServer("127.0.0.1:0", t)
		return s, t, err
	default:
		t := nbtns.NewNetBIOSNameServer(secured)
		s, err := nbtns.NewTCPServer("127.0.0.1:0", t)
		return s, t, err
	}
}

func nbName(c, i int) string { return fmt.Sprintf("N%02dX%04d", c, i) }
func nbIP(c, i int) net.IP   { return net.IP{10, byte(c), byte(i >> 8), byte(i)} }

func nbQuery(id uint16, name string) []byte {
	p := &nbtns.NBTNSPacket{Header: nbtns.NBTNSHeader{TransactionID: id, Flags: 0x0110, Questions: 1},
		Questions: []nbtns.NBTNSQuestion{{Name: &nbtns.NetBIOSName{Name: name}, Type: 0x20, Class: 1}}}
	b, err := p.Marshal()
	if err != nil {
		panic(err)
	}
	return b
}

// nbOpPacket builds a registration-shaped packet (question + the RR in both the answer and
// the additional section, so that a handler sees it whichever section it reads).
func nbOpPacket(id uint16, opcode int, name string, ip net.IP, ttl uint32) []byte {
	return nbOpPacketFlags(id, opcode, 0x0100, name, ip, ttl)
}

// nbOpPacketFlags: the same with the header bits outside OPCODE (and R, RCODE) chosen by the caller.
func nbOpPacketFlags(id uint16, opcode int, bg uint16, name string, ip net.IP, ttl uint32) []byte {
	n := &nbtns.NetBIOSName{Name: name}
	rr := nbtns.NBTNSResourceRecord{Name: n, Type: 0x20, Class: 1, TTL: ttl, RDLength: uint16(len(ip)), RData: ip}
	p := &nbtns.NBTNSPacket{Header: nbtns.NBTNSHeader{TransactionID: id, Flags: uint16(opcode)<<11 | bg&0x07F0, Questions: 1, Answers: 1, Additional: 1},
		Questions: []nbtns.NBTNSQuestion{{Name: n, Type: 0x20, Class: 1}}, Answers: []nbtns.NBTNSResourceRecord{rr}, Additional: []nbtns.NBTNSResourceRecord{rr}}
	b, err := p.Marshal()
	if err != nil {
		panic(err)
	}
	return b
}

type nbReq struct {
	id   uint16
	name string
	ip   net.IP
	neg  bool // the name is not registered: a negative response (rcode != 0, no answers) is expected
}

// reqFor returns the i-th request of client c: every third one asks for a name nobody holds, so
// that positive and negative responses alternate on the same socket/connection.
func reqFor(c, i int) nbReq {
	id := uint16(c*4000 + i + 1)
	if i%3 == 2 {
		return nbReq{id: id, name: fmt.Sprintf("Z%02dX%04d", c, i), neg: true}
	}
	return nbReq{id: id, name: nbName(c, i), ip: nbIP(c, i)}
}

// judgeNB checks one response against the outstanding requests of one client socket.
func judgeNB(kind string, scen string, raw []byte, outstanding map[uint16]nbReq, answered map[uint16]bool) {
	evals.Add(1)
	var resp nbtns.NBTNSPacket
	var err error
	p, pv, _ := mon.Guard(func() { _, err = resp.Unmarshal(raw) })
	cs := map[string]any{"server": kind, "scenario": scen, "response": hex.EncodeToString(raw)}
	if p || err != nil {
		viol("nbns."+kind+":response-unparseable", fmt.Sprintf("the library's own decoder cannot read the server's response: %v %v", pv, err), cs)
		return
	}
	req, ok := outstanding[resp.Header.TransactionID]
	if !ok {
		viol("nbns."+kind+":foreign-id", fmt.Sprintf("response carries transaction id %#04x which this socket never sent", resp.Header.TransactionID), cs)
		return
	}
	cs["request_name"], cs["request_id"] = req.name, req.id
	if answered[req.id] {
		viol("nbns."+kind+":duplicate-response", fmt.Sprintf("two responses for transaction id %#04x", req.id), cs)
		return
	}
	answered[req.id] = true
	if resp.Header.Flags&0x8000 == 0 {
		viol("nbns."+kind+":not-a-response", "response bit not set", cs)
	}
	if req.neg {
		if resp.Header.Flags&0x000F == 0 || len(resp.Answers) != 0 || resp.Header.Answers != 0 {
			viol("nbns."+kind+":negative-response", fmt.Sprintf("request %#04x for the unregistered name %s answered with rcode %d, ANCOUNT %d and %d answers", req.id, req.name, resp.Header.Flags&0xF, resp.Header.Answers, len(resp.Answers)), cs)
		}
		return
	}
	if resp.Header.Flags&0x000F != 0 || len(resp.Answers) == 0 {
		viol("nbns."+kind+":cross-talk", fmt.Sprintf("request %#04x for registered name %s answered with rcode %d and %d answers", req.id, req.name, resp.Header.Flags&0xF, len(resp.Answers)), cs)
		return
	}
	a := resp.Answers[0]
	if a.Name == nil || a.Name.Name != req.name || !bytes.Equal(a.RData, req.ip) {
		got := ""
		if a.Name != nil {
			got = a.Name.Name
		}
		viol("nbns."+kind+":cross-talk", fmt.Sprintf("request %#04x asked %s (%v) but the response with that id answers %s (%v)", req.id, req.name, req.ip, got, net.IP(a.RData)), cs)
	}
}

// ------------------------------------------------------------------ NBNS pairing over UDP

func nbPairingUDP(kind string, nClients, mReq, mode int, run int) {
	scen := fmt.Sprintf("pairing/%s/c%d/m%d/mode%d/run%d", kind, nClients, mReq, mode, run)
	srv, table, err := newNB(kind)
	if err != nil {
		inconclusive(scen + ": " + err.Error())
		return
	}
	for c := 0; c < nClients; c++ {
		for i := 0; i < mReq; i++ {
			table.RegisterName(nbName(c, i), nbtns.Unique, nbIP(c, i), time.Hour)
		}
	}
	tr.reset(mode)
	if err := srv.Start(); err != nil {
		inconclusive(scen + ": start: " + err.Error())
		return
	}
	addr := srv.VerifAddr().(*net.UDPAddr)
	var wg sync.WaitGroup
	var got, sent atomic.Int64
	for c := 0; c < nClients; c++ {
		wg.Add(1)
		go func(c int) {
			defer wg.Done()
			conn, err := net.DialUDP("udp4", nil, addr)
			if err != nil {
				return
			}
			defer conn.Close()
			outstanding := map[uint16]nbReq{}
			answered := map[uint16]bool{}
			r := rng(fmt.Sprintf("%s|%d", scen, c))
			for i := 0; i < mReq; i++ {
				rq := reqFor(c, i)
				outstanding[rq.id] = rq
			}
			window := make(chan struct{}, 8)
			for k := 0; k < cap(window); k++ {
				window <- struct{}{}
			}
			done := make(chan struct{})
			go func() { // receiver
				defer close(done)
				buf := make([]byte, 2048)
				for len(answered) < mReq {
					conn.SetReadDeadline(time.Now().Add(1500 * time.Millisecond))
					n, err := conn.Read(buf)
					if err != nil {
						return
					}
					judgeNB(kind, scen, append([]byte{}, buf[:n]...), outstanding, answered)
					got.Add(1)
					select {
					case window <- struct{}{}:
					default:
					}
				}
			}()
			for i := 0; i < mReq; i++ {
				// closed loop: at most cap(window) requests of this client in flight, so the
				// server's socket buffer cannot overflow whatever the machine load; a lost
				// datagram frees its slot after 300 ms
				select {
				case <-window:
				case <-time.After(300 * time.Millisecond):
				}
				rq := reqFor(c, i)
				conn.Write(nbQuery(rq.id, rq.name))
				sent.Add(1)
				if r.IntN(4) == 0 {
					runtime.Gosched()
				}
			}
			<-done
			tried := 0
			for i := 0; i < mReq && tried < 4; i++ {
				rq := reqFor(c, i)
				if answered[rq.id] {
					continue
				}
				tried++
				ok := false
				buf := make([]byte, 65536)
				for attempt := 0; attempt < 4 && !ok; attempt++ {
					conn.Write(nbQuery(rq.id, rq.name))
					conn.SetReadDeadline(time.Now().Add(time.Second))
					for {
						n, err := conn.Read(buf)
						if err != nil {
							break
						}
						if n >= 2 && binary.BigEndian.Uint16(buf) == rq.id {
							ok = true
							break
						}
					}
				}
				evals.Add(1)
				if !ok {
					viol("nbns."+kind+":request-never-answered", fmt.Sprintf("query %#04x for %s got no response: neither in the run nor when repeated alone four times, one second apart", rq.id, rq.name), map[string]any{"scenario": scen, "client": c, "request": i})
					break
				}
				count("nbns_requests_answered_only_when_repeated", 1)
			}
		}(c)
	}
	wg.Wait()
	if !within(progressLimit, srv.Stop) {
		_, d := libGoroutines("netbios/nbtns.")
		viol("shutdown."+kind+":stop-hung", "Stop did not return within the bounded-progress limit after traffic", map[string]any{"scenario": scen, "goroutines": d})
	}
	sig, maxOut := tr.signature()
	if sent.Load() > 0 && got.Load()*2 < sent.Load() {
		inconclusive(fmt.Sprintf("%s: only %d of %d requests answered", scen, got.Load(), sent.Load()))
	}
	count("nbns_requests", int(sent.Load()))
	count("nbns_responses", int(got.Load()))
	if maxOut > 1 {
		count("scenarios_with_overlapping_requests", 1)
	}
	nontrivial(fmt.Sprintf("pairing|%s|%d|%s", kind, nClients, sig))
	if run == 0 && mode == 0 && nClients <= 4 {
		emit(childLine{T: "s", V: map[string]any{"scenario": scen, "events_head": sig[:min(len(sig), 120)], "max_outstanding_in_server": maxOut, "sent": sent.Load(), "answered": got.Load()}})
	}
}

// ------------------------------------------------------------------ NBNS pairing over TCP

func nbFrame(b []byte) []byte {
	return append([]byte{byte(len(b) >> 8), byte(len(b))}, b...)
}

func nbPairingTCP(nClients, mReq, run int) {
	kind := "TCPServer"
	scen := fmt.Sprintf("pairing/%s/c%d/m%d/run%d", kind, nClients, mReq, run)
	srv, table, err := newNB(kind)
	if err != nil {
		inconclusive(scen + ": " + err.Error())
		return
	}
	for c := 0; c < nClients; c++ {
		for i := 0; i < mReq; i++ {
			table.RegisterName(nbName(c, i), nbtns.Unique, nbIP(c, i), time.Hour)
		}
	}
	tr.reset(run % 2)
	if err := srv.Start(); err != nil {
		inconclusive(scen + ": start: " + err.Error())
		return
	}
	addr := srv.VerifAddr().String()
	var wg sync.WaitGroup
	var got, sent atomic.Int64
	for c := 0; c < nClients; c++ {
		wg.Add(1)
		go func(c int) {
			defer wg.Done()
			conn, err := net.Dial("tcp4", addr)
			if err != nil {
				return
			}
			defer conn.Close()
			r := rng(fmt.Sprintf("%s|%d", scen, c))
			outstanding := map[uint16]nbReq{}
			answered := map[uint16]bool{}
			var order []uint16
			var stream []byte
			for i := 0; i < mReq; i++ {
				rq := reqFor(c, i)
				outstanding[rq.id] = rq
				order = append(order, rq.id)
				stream = append(stream, nbFrame(nbQuery(rq.id, rq.name))...)
			}
			done := make(chan struct{})
			go func() {
				defer close(done)
				for k := 0; k < mReq; k++ {
					conn.SetReadDeadline(time.Now().Add(5 * time.Second))
					var l [2]byte
					if _, err := io.ReadFull(conn, l[:]); err != nil {
						return
					}
					b := make([]byte, int(l[0])<<8|int(l[1]))
					if _, err := io.ReadFull(conn, b); err != nil {
						return
					}
					// a stream server answers in order
					if len(b) >= 2 && binary.BigEndian.Uint16(b) != order[k] {
						viol("nbns.TCPServer:out-of-order", fmt.Sprintf("response #%d on the connection carries id %#04x, request #%d was %#04x", k, binary.BigEndian.Uint16(b), k, order[k]), map[string]any{"scenario": scen})
					}
					judgeNB(kind, scen, b, outstanding, answered)
					got.Add(1)
				}
			}()
			// pipelined, segmented arbitrarily (frames split across writes)
			for pos := 0; pos < len(stream); {
				n := 1 + r.IntN(120)
				if pos+n > len(stream) {
					n = len(stream) - pos
				}
				conn.Write(stream[pos : pos+n])
				pos += n
				if r.IntN(3) == 0 {
					runtime.Gosched()
				}
			}
			sent.Add(int64(mReq))
			<-done
			if c%2 == 1 { // leave half a frame behind at close
				conn.Write([]byte{0, 50, 1, 2, 3})
			}
		}(c)
	}
	wg.Wait()
	if !within(progressLimit, srv.Stop) {
		_, d := libGoroutines("netbios/nbtns.")
		viol("shutdown.TCPServer:stop-hung", "Stop did not return within the bounded-progress limit after traffic", map[string]any{"scenario": scen, "goroutines": d})
	}
	if got.Load()*2 < sent.Load() {
		inconclusive(fmt.Sprintf("%s: only %d of %d requests answered", scen, got.Load(), sent.Load()))
	}
	count("nbns_requests", int(sent.Load()))
	count("nbns_responses", int(got.Load()))
	sig, _ := tr.signature()
	nontrivial(fmt.Sprintf("pairing|TCP|%d|%d|%s", nClients, run, sig[:min(len(sig), 64)]))
}

// ------------------------------------------------------------------ opcode routing (exhaustive)

func nbExchange(kind string, addr net.Addr, pkt []byte) ([]byte, bool) {
	if kind == "TCPServer" {
		conn, err := net.Dial("tcp4", addr.String())
		if err != nil {
			return nil, false
		}
		defer conn.Close()
		conn.Write(nbFrame(pkt))
		conn.SetReadDeadline(time.Now().Add(5 * time.Second))
		var l [2]byte
		if _, err := io.ReadFull(conn, l[:]); err != nil {
			return nil, false
		}
		b := make([]byte, int(l[0])<<8|int(l[1]))
		if _, err := io.ReadFull(conn, b); err != nil {
			return nil, false
		}
		return b, true
	}
	conn, err := net.DialUDP("udp4", nil, addr.(*net.UDPAddr))
	if err != nil {
		return nil, false
	}
	defer conn.Close()
	for try := 0; try < 3; try++ {
		conn.Write(pkt)
		conn.SetReadDeadline(time.Now().Add(2 * time.Second))
		buf := make([]byte, 65536)
		n, err := conn.Read(buf)
		if err == nil {
			return buf[:n], true
		}
	}
	return nil, false
}

func rcodeOf(b []byte) int {
	if len(b) < 4 {
		return -1
	}
	return int(b[3] & 0x0F)
}

func nbOpcodes(kind string) {
	srv, table, err := newNB(kind)
	if err != nil {
		inconclusive("opcodes/" + kind + ": " + err.Error())
		return
	}
	tr.reset(0)
	if err := srv.Start(); err != nil {
		inconclusive("opcodes/" + kind + ": start: " + err.Error())
		return
	}
	defer within(progressLimit, srv.Stop)
	addr := srv.VerifAddr()
	ipA, ipB := net.IP{10, 9, 0, 1}, net.IP{10, 9, 0, 2}
	held := func(name string) (net.IP, bool) {
		o, _, err := table.QueryName(name)
		if err != nil || len(o) == 0 {
			return nil, false
		}
		return o[0], true
	}
	id := uint16(0x100)
	for op := 0; op < 16; op++ {
		existing, fresh := fmt.Sprintf("OP%02dHELD", op), fmt.Sprintf("OP%02dNEW", op)
		table.RegisterName(existing, nbtns.Unique, ipA, time.Hour)
		key := fmt.Sprintf("opcode.%s:%d", kind, op)
		cs := map[string]any{"server": kind, "opcode": op}
		// (a) packet naming a name nobody holds
		id++
		pa := nbOpPacket(id, op, fresh, ipB, 3600)
		ra, ok := nbExchange(kind, addr, pa)
		evals.Add(1)
		cs["packet_a"] = hex.EncodeToString(pa)
		if !ok {
			if op == 0 || op == 5 || op == 6 || op == 8 {
				viol(key+":no-response", fmt.Sprintf("no response to opcode %d", op), cs)
			} else {
				count("opcode_probes_unanswered", 1)
			}
		} else if len(ra) >= 2 && binary.BigEndian.Uint16(ra) != id {
			viol(key+":wrong-id", "response carries another transaction id", cs)
		}
		_, nowHeld := held(fresh)
		if op == 5 && !nowHeld {
			viol(key+":registration-not-routed", "a NAME REGISTRATION REQUEST (opcode 5) did not register the name", cs)
		}
		if op != 5 && nowHeld {
			viol(key+":routed-to-registration", fmt.Sprintf("opcode %d registered a name: routed to the registration handler", op), cs)
		}
		// (b) refresh semantics are visible in the rcode: owner succeeds, stranger fails
		if op == 8 {
			id++
			rOwner, ok1 := nbExchange(kind, addr, nbOpPacket(id, op, existing, ipA, 3600))
			id++
			rOther, ok2 := nbExchange(kind, addr, nbOpPacket(id, op, existing, ipB, 3600))
			evals.Add(2)
			if ok1 && ok2 && !(rcodeOf(rOwner) == 0 && rcodeOf(rOther) != 0) {
				viol(key+":refresh-not-routed", fmt.Sprintf("NAME REFRESH by the owner got rcode %d and by a stranger rcode %d: not handled by the refresh handler", rcodeOf(rOwner), rcodeOf(rOther)), cs)
			}
		}
		// (c) packet naming a held name with its owner's address: only RELEASE may remove it
		id++
		pc := nbOpPacket(id, op, existing, ipA, 3600)
		_, ok = nbExchange(kind, addr, pc)
		evals.Add(1)
		cs["packet_c"] = hex.EncodeToString(pc)
		o, still := held(existing)
		if op == 6 && still {
			viol(key+":release-not-routed", "a NAME RELEASE REQUEST (opcode 6) by the owner did not release the name", cs)
		}
		if op != 6 && (!still || !o.Equal(ipA)) {
			viol(key+":routed-to-release", fmt.Sprintf("opcode %d removed or changed a held name: routed to the release handler", op), cs)
		}
		// (d) opcode 0 must answer a query for a held name
		if op == 0 {
			table.RegisterName("OP00QUERY", nbtns.Unique, ipA, time.Hour)
			id++
			rq, ok := nbExchange(kind, addr, nbQuery(id, "OP00QUERY"))
			evals.Add(1)
			if ok {
				out := map[uint16]nbReq{id: {id: id, name: "OP00QUERY", ip: ipA}}
				judgeNB(kind, "opcodes", rq, out, map[uint16]bool{})
			} else {
				viol(key+":query-unanswered", "a NAME QUERY REQUEST for a registered name got no response", cs)
			}
		}
		if ok {
			nontrivial(fmt.Sprintf("opcode|%s|%d", kind, op))
		}
	}
	// (e) a release request of three records, one of which the table refuses (a name held by another
	// address), at each position: the response is the answer for that request, so it cannot be a
	// positive one, wherever the refused record stands (C18-r9-2)
	for pos := 0; pos < 3; pos++ {
		var rrs []nbtns.NBTNSResourceRecord
		var names []string
		for j := 0; j < 3; j++ {
			nm := fmt.Sprintf("MR%dREC%d", pos, j)
			names = append(names, nm)
			table.RegisterName(nm, nbtns.Unique, ipA, time.Hour)
			ip := ipA
			if j == pos {
				ip = ipB // not the owner: ReleaseName refuses
			}
			rrs = append(rrs, nbtns.NBTNSResourceRecord{Name: &nbtns.NetBIOSName{Name: nm}, Type: 0x20, Class: 1, TTL: 0, RDLength: uint16(len(ip)), RData: ip})
		}
		id++
		pk := &nbtns.NBTNSPacket{Header: nbtns.NBTNSHeader{TransactionID: id, Flags: uint16(6)<<11 | 0x0100, Questions: 1, Answers: 3, Additional: 3},
			Questions: []nbtns.NBTNSQuestion{{Name: &nbtns.NetBIOSName{Name: names[0]}, Type: 0x20, Class: 1}}, Answers: rrs, Additional: rrs}
		raw, merr := pk.Marshal()
		if merr != nil {
			count("multi_release_not_encodable", 1)
			continue
		}
		rm, ok := nbExchange(kind, addr, raw)
		evals.Add(1)
		cs := map[string]any{"server": kind, "refused_record_position": pos, "packet": hex.EncodeToString(raw)}
		o, still := held(names[pos])
		if !still || !o.Equal(ipA) {
			count("multi_release_refused_record_not_refused", 1) // the table's business (C17), not judged here
			continue
		}
		if ok && len(rm) >= 4 {
			if binary.BigEndian.Uint16(rm) != id {
				viol(fmt.Sprintf("opcode.%s:6:multi-record:wrong-id", kind), "response carries another transaction id", cs)
			} else if rcodeOf(rm) == 0 {
				viol(fmt.Sprintf("opcode.%s:6:multi-record:refusal-not-reported", kind), fmt.Sprintf("a NAME RELEASE REQUEST of three records whose record %d names a name held by another address (still held afterwards) got a positive response (rcode 0)", pos), cs)
			}
			nontrivial(fmt.Sprintf("multi-release|%s|%d", kind, pos))
		} else {
			count("multi_release_unanswered", 1)
		}
	}
	// routing is by the OPCODE field alone: the other header bits of a request (AA, TC, RD, RA,
	// the two reserved bits, B) in every background must not change which handler runs
	for bi, bg := range []uint16{0x0000, 0x0110, 0x0010, 0x0080, 0x0180, 0x0090, 0x0500, 0x0300, 0x0140, 0x0120, 0x07F0} {
		for _, op := range []int{5, 6, 8, 0, 7, 15} {
			held1, new1 := fmt.Sprintf("B%02dO%02dHELD", bi, op), fmt.Sprintf("B%02dO%02dNEW", bi, op)
			table.RegisterName(held1, nbtns.Unique, ipA, time.Hour)
			key := fmt.Sprintf("opcode.%s:%d:flag-background", kind, op)
			cs := map[string]any{"server": kind, "opcode": op, "other_header_bits": fmt.Sprintf("%#04x", bg)}
			id++
			pa := nbOpPacketFlags(id, op, bg, new1, ipB, 3600)
			ra, ok := nbExchange(kind, addr, pa)
			evals.Add(1)
			cs["packet"] = hex.EncodeToString(pa)
			if ok && len(ra) >= 2 && binary.BigEndian.Uint16(ra) != id {
				viol(key+":wrong-id", "response carries another transaction id", cs)
			}
			if !ok && (op == 5 || op == 6 || op == 8) {
				viol(key+":no-response", fmt.Sprintf("no response to opcode %d with header bits %#04x", op, bg), cs)
			}
			_, nowHeld := held(new1)
			if op == 5 && !nowHeld {
				viol(key+":registration-not-routed", fmt.Sprintf("a NAME REGISTRATION REQUEST (opcode 5) with header bits %#04x did not register the name", bg), cs)
			}
			if op != 5 && nowHeld {
				viol(key+":routed-to-registration", fmt.Sprintf("opcode %d with header bits %#04x registered a name", op, bg), cs)
			}
			id++
			nbExchange(kind, addr, nbOpPacketFlags(id, op, bg, held1, ipA, 3600))
			evals.Add(1)
			o, still := held(held1)
			if op == 6 && still {
				viol(key+":release-not-routed", fmt.Sprintf("a NAME RELEASE REQUEST (opcode 6) with header bits %#04x by the owner did not release the name", bg), cs)
			}
			if op != 6 && (!still || !o.Equal(ipA)) {
				viol(key+":routed-to-release", fmt.Sprintf("opcode %d with header bits %#04x removed or changed a held name", op, bg), cs)
			}
			nontrivial(fmt.Sprintf("opcode-bg|%s|%d|%#x", kind, op, bg))
		}
	}
	emit(childLine{T: "s", V: map[string]any{"scenario": "opcodes/" + kind, "opcodes": 16, "example_registration_packet": hex.EncodeToString(nbOpPacket(1, 5, "EXAMPLE", ipB, 60))}})
}

// ------------------------------------------------------------------ NBNS group names of every size

// nbGroups: a name query for a group of n members is answered under the request's own id with
// exactly the members' addresses — also when the response outgrows 576 octets (10 members and
// more), where it may instead be cut and flagged truncated, but still under that id and with
// members of that group only.
func nbGroups(kind string) {
	srv, table, err := newNB(kind)
	if err != nil {
		inconclusive("groups/" + kind + ": " + err.Error())
		return
	}
	sizes := []int{1, 2, 8, 9, 10, 11, 12, 16, 25, 40}
	member := func(g, k int) net.IP { return net.IPv4(10, 20, byte(g), byte(k+1)) } // 16-byte form, as the API stores it
	for gi, n := range sizes {
		for k := 0; k < n; k++ {
			table.RegisterName(fmt.Sprintf("GROUP%02d", gi), nbtns.Group, member(gi, k), time.Hour)
		}
	}
	tr.reset(0)
	if err := srv.Start(); err != nil {
		inconclusive("groups/" + kind + ": start: " + err.Error())
		return
	}
	defer within(progressLimit, srv.Stop)
	addr := srv.VerifAddr()
	for round := 0; round < pick(3, 30); round++ {
		for gi, n := range sizes {
			id := uint16(0x7000 + round*64 + gi)
			name := fmt.Sprintf("GROUP%02d", gi)
			raw, ok := nbExchange(kind, addr, nbQuery(id, name))
			evals.Add(1)
			cs := map[string]any{"server": kind, "group_members": n, "request_id": id, "response": hex.EncodeToString(raw)}
			key := "nbns." + kind + ":group"
			if !ok {
				viol(key+":unanswered", fmt.Sprintf("a query for a group of %d members got no response", n), cs)
				continue
			}
			if len(raw) < 12 || binary.BigEndian.Uint16(raw) != id {
				viol(key+":foreign-id", fmt.Sprintf("the response to a query for a group of %d members (%d octets) carries transaction id %#04x, the request had %#04x", n, len(raw), binary.BigEndian.Uint16(raw), id), cs)
				continue
			}
			var resp nbtns.NBTNSPacket
			p, _, _ := mon.Guard(func() { _, err = resp.Unmarshal(raw) })
			// flagged truncated, or cut at the 576-octet datagram limit of RFC 1002 (the UDP server
			// cuts without setting TC: observed, not judged — C18 is about ids and answers)
			truncated := len(raw) >= 4 && raw[2]&0x02 != 0 || (kind != "TCPServer" && len(raw) >= 576)
			if truncated {
				count("group_responses_cut_at_the_datagram_limit", 1)
			}
			if p || err != nil {
				if !truncated {
					viol(key+":response-unparseable", fmt.Sprintf("group of %d members: the library's own decoder cannot read the response: %v", n, err), cs)
				}
				continue
			}
			if resp.Header.Flags&0x8000 == 0 || resp.Header.Flags&0x000F != 0 {
				viol(key+":not-a-positive-response", fmt.Sprintf("group of %d members: flags %#04x", n, resp.Header.Flags), cs)
				continue
			}
			seen := map[string]bool{}
			bad := ""
			for _, a := range resp.Answers {
				if a.Name == nil || a.Name.Name != name {
					bad = "an answer for another name"
					break
				}
				rd := a.RData
				for len(rd) >= 4 {
					ip := net.IP(rd[len(rd)-4:]) // the address is the tail of each entry, whatever precedes it
					if len(a.RData)%6 == 0 && len(a.RData) >= 6 {
						ip = net.IP(rd[2:6])
						rd = rd[6:]
					} else if len(a.RData) == 16 {
						ip = net.IP(rd[12:16])
						rd = nil
					} else {
						rd = rd[:len(rd)-4]
						if len(a.RData) == 4 {
							rd = nil
						}
					}
					if !(ip[0] == 10 && ip[1] == 20 && int(ip[2]) == gi && int(ip[3]) >= 1 && int(ip[3]) <= n) {
						bad = fmt.Sprintf("address %v is not a member of the group", ip)
					}
					seen[ip.String()] = true
				}
			}
			switch {
			case bad != "":
				viol(key+":cross-talk", fmt.Sprintf("group of %d members: %s", n, bad), cs)
			case len(seen) != n && !truncated:
				viol(key+":members", fmt.Sprintf("group of %d members: the response (not flagged truncated) names %d distinct members", n, len(seen)), cs)
			}
			nontrivial(fmt.Sprintf("group|%s|%d", kind, n))
		}
	}
}

// nbSameID: one client socket that uses the same transaction id for different requests in a row
// (a node with a constant id): every response is the answer for the request that preceded it.
func nbSameID(kind string) {
	srv, table, err := newNB(kind)
	if err != nil {
		inconclusive("same-id/" + kind + ": " + err.Error())
		return
	}
	for i := 0; i < 6; i++ {
		table.RegisterName(fmt.Sprintf("SAMEID%02d", i), nbtns.Unique, net.IP{10, 30, 0, byte(i + 1)}, time.Hour)
	}
	tr.reset(0)
	if err := srv.Start(); err != nil {
		inconclusive("same-id/" + kind + ": start: " + err.Error())
		return
	}
	defer within(progressLimit, srv.Stop)
	addr := srv.VerifAddr()
	var conn net.Conn
	if kind == "TCPServer" {
		conn, err = net.Dial("tcp4", addr.String())
	} else {
		conn, err = net.DialUDP("udp4", nil, addr.(*net.UDPAddr))
	}
	if err != nil {
		return
	}
	defer conn.Close()
	exchange := func(pkt []byte) ([]byte, bool) {
		for try := 0; try < 3; try++ {
			if kind == "TCPServer" {
				conn.Write(nbFrame(pkt))
				conn.SetReadDeadline(time.Now().Add(3 * time.Second))
				var l [2]byte
				if _, err := io.ReadFull(conn, l[:]); err != nil {
					return nil, false
				}
				b := make([]byte, int(l[0])<<8|int(l[1]))
				if _, err := io.ReadFull(conn, b); err != nil {
					return nil, false
				}
				return b, true
			}
			conn.Write(pkt)
			conn.SetReadDeadline(time.Now().Add(2 * time.Second))
			buf := make([]byte, 65536)
			if n, err := conn.Read(buf); err == nil {
				return buf[:n], true
			}
		}
		return nil, false
	}
	const id = 0x4242
	for round := 0; round < pick(2, 10); round++ {
		for i := 0; i < 8; i++ {
			name, ip, neg := fmt.Sprintf("SAMEID%02d", i), net.IP{10, 30, 0, byte(i + 1)}, i >= 6
			raw, ok := exchange(nbQuery(id, name))
			evals.Add(1)
			if !ok {
				count("same_id_requests_unanswered", 1)
				continue
			}
			judgeNB(kind, "same-id", raw, map[uint16]nbReq{id: {id: id, name: name, ip: ip, neg: neg}}, map[uint16]bool{})
		}
		// a registration under the same id right after a query: it must be executed
		fresh := fmt.Sprintf("SAMEIDNEW%d", round)
		exchange(nbQuery(id, "SAMEID00"))
		exchange(nbOpPacket(id, 5, fresh, net.IP{10, 30, 9, byte(round + 1)}, 3600))
		evals.Add(1)
		if o, _, err := table.QueryName(fresh); err != nil || len(o) == 0 {
			viol("nbns."+kind+":same-id:registration-not-executed", "a registration sent under the transaction id of the preceding query was not executed", map[string]any{"server": kind, "name": fresh})
		}
		nontrivial(fmt.Sprintf("same-id|%s|%d", kind, round))
	}
}

// nbRuntFrames: on one TCP connection, frames too short to be a request followed by other frames.
// Whatever the server does with the short ones (ignore, reset), every response it sends answers
// a frame that was actually sent: its transaction id is that of a sent frame of request size.
func nbRuntFrames() {
	srv, table, err := newNB("TCPServer")
	if err != nil {
		inconclusive("runt-frames: " + err.Error())
		return
	}
	table.RegisterName("RUNTALPHA", nbtns.Unique, net.IP{10, 31, 0, 1}, time.Hour)
	tr.reset(0)
	if err := srv.Start(); err != nil {
		inconclusive("runt-frames: start: " + err.Error())
		return
	}
	defer within(progressLimit, srv.Stop)
	addr := srv.VerifAddr()
	valid := nbQuery(0x7A01, "RUNTALPHA")
	for n := 0; n <= 13; n++ {
		for variant := 0; variant < 3; variant++ {
			runt := make([]byte, n)
			for i := range runt {
				runt[i] = byte(0x30 + i)
			}
			var frames [][]byte
			switch variant {
			case 0: // the runt, then a valid request
				frames = [][]byte{runt, valid}
			case 1: // the runt's payload looks like a length prefix: what follows would be re-framed
				if n < 2 {
					continue
				}
				// frame 1: two octets that read as a length; frame 2: a query without its id. Cut as
				// sent, neither is a request; re-cut after skipping only frame 1's prefix, frame 1's
				// payload becomes a length and frame 2's own prefix becomes a transaction id
				body := valid[2:]
				frames = [][]byte{{byte((len(body) + 2) >> 8), byte(len(body) + 2)}, body}
			default: // two runts, then a valid request
				frames = [][]byte{runt, runt, valid}
			}
			conn, err := net.Dial("tcp4", addr.String())
			if err != nil {
				return
			}
			var stream []byte
			sentIDs := map[uint16]bool{}
			for _, f := range frames {
				stream = append(stream, nbFrame(f)...)
				if len(f) >= 12 {
					sentIDs[binary.BigEndian.Uint16(f)] = true
				}
			}
			conn.Write(stream)
			evals.Add(1)
			for {
				conn.SetReadDeadline(time.Now().Add(700 * time.Millisecond))
				var l [2]byte
				if _, err := io.ReadFull(conn, l[:]); err != nil {
					break
				}
				b := make([]byte, int(l[0])<<8|int(l[1]))
				if _, err := io.ReadFull(conn, b); err != nil {
					break
				}
				if len(b) >= 2 && !sentIDs[binary.BigEndian.Uint16(b)] {
					viol("nbns.TCPServer:runt-frame:fabricated-response", fmt.Sprintf("after a %d-octet frame the server sent a response with transaction id %#04x; no frame of request size with that id was sent (frames were re-cut)", n, binary.BigEndian.Uint16(b)), map[string]any{"stream": hex.EncodeToString(stream), "response": hex.EncodeToString(b)})
					break
				}
			}
			conn.Close()
			nontrivial(fmt.Sprintf("runt|%d|%d", n, variant))
		}
	}
}

// ------------------------------------------------------------------ NBNS shutdown trials

func nbShutdown(kind string, trials int) {
	r := rng("shutdown|" + kind)
	for t := 0; t < trials; t++ {
		srv, table, err := newNB(kind)
		if err != nil {
			inconclusive("shutdown/" + kind + ": " + err.Error())
			return
		}
		for i := 0; i < 8; i++ {
			table.RegisterName(nbName(0, i), nbtns.Unique, nbIP(0, i), time.Hour)
		}
		tr.reset(t % 3)
		if err := srv.Start(); err != nil {
			inconclusive("shutdown/" + kind + ": start: " + err.Error())
			return
		}
		addr := srv.VerifAddr()
		k := []int{0, 1, 3, 8, 30}[r.IntN(5)] // stop after the k-th request has been sent
		var conns []net.Conn
		for i := 0; i < k; i++ {
			var c net.Conn
			if kind == "TCPServer" {
				if i%4 == 0 || len(conns) == 0 {
					c, err = net.Dial("tcp4", addr.String())
					if err != nil {
						continue
					}
					conns = append(conns, c)
				}
				c = conns[len(conns)-1]
				f := nbFrame(nbQuery(uint16(i+1), nbName(0, i%8)))
				if i == k-1 && r.IntN(2) == 0 {
					f = f[:len(f)/2] // stop with half a frame in flight
				}
				c.Write(f)
			} else {
				if len(conns) == 0 {
					c, err = net.DialUDP("udp4", nil, addr.(*net.UDPAddr))
					if err != nil {
						continue
					}
					conns = append(conns, c)
				}
				conns[0].Write(nbQuery(uint16(i+1), nbName(0, i%8)))
			}
		}
		evals.Add(1)
		ok := within(progressLimit, srv.Stop)
		for _, c := range conns {
			c.Close()
		}
		cs := map[string]any{"server": kind, "trial": t, "requests_sent_before_stop": k}
		if !ok {
			_, d := libGoroutines("netbios/nbtns.")
			cs["goroutines"] = d
			viol("shutdown."+kind+":stop-hung", fmt.Sprintf("Stop did not return within %v", progressLimit), cs)
			return
		}
		if n, d := waitNoLibGoroutines(10*time.Second, "netbios/nbtns."); n > 0 {
			cs["goroutines"] = d
			viol("shutdown."+kind+":goroutine-leak", fmt.Sprintf("%d goroutine(s) of the server still alive 10 s after Stop returned", n), cs)
			return
		}
		nontrivial(fmt.Sprintf("shutdown|%s|k%d|mode%d", kind, k, t%3))
	}
	count("shutdown_trials", trials)
}

// ------------------------------------------------------------------ LLMNR server

func llName(c, i int) string { return fmt.Sprintf("host%02d-%04d.example", c, i) }
func llIP(c, i int) string   { return fmt.Sprintf("10.%d.%d.%d", c+100, i>>8, i&255) }

func llmnrHandler() llmnr.Handler {
	return llmnr.HandlerFunc(func(s *llmnr.Server, remote net.Addr, w llmnr.ResponseWriter, m *llmnr.Message) bool {
		if len(m.Questions) == 0 {
			return true
		}
		var c, i int
		name := m.Questions[0].Name
		if _, err := fmt.Sscanf(name, "host%02d-%04d.example", &c, &i); err != nil {
			return true
		}
		if i%2 == 1 {
			// answer in place: the handler owns the message it was handed
			m.SetResponse()
			m.AddAnswerClassINTypeA(name, llIP(c, i))
			w.WriteMessage(m)
			return false
		}
		resp := llmnr.CreateResponseFromMessage(m)
		resp.AddAnswerClassINTypeA(name, llIP(c, i))
		w.WriteMessage(resp)
		return false
	})
}

var llmnrDebug bool // scenarios alternate the server's Debug option

func startLLMNR() (*llmnr.Server, *net.UDPConn, chan error, error) {
	conn, err := net.ListenUDP("udp4", &net.UDPAddr{IP: net.IP{127, 0, 0, 1}})
	if err != nil {
		return nil, nil, nil, err
	}
	srv, err := llmnr.NewServer("udp4", []llmnr.Handler{llmnrHandler()})
	if err != nil {
		return nil, nil, nil, err
	}
	srv.Conn = conn
	srv.SetDebug(llmnrDebug)
	done := make(chan error, 1)
	go func() { done <- srv.Serve() }()
	return srv, conn, done, nil
}

func llmnrPairing(nClients, mReq, mode, run int) {
	llmnrDebug = (run+mode)%2 == 1 && nClients <= 8 // the Debug server prints every datagram and is slow
	defer func() { llmnrDebug = false }()
	scen := fmt.Sprintf("llmnr-pairing/c%d/m%d/mode%d/run%d/debug%v", nClients, mReq, mode, run, llmnrDebug)
	tr.reset(mode)
	srv, sconn, done, err := startLLMNR()
	if err != nil {
		inconclusive(scen + ": " + err.Error())
		return
	}
	addr := sconn.LocalAddr().(*net.UDPAddr)
	var wg sync.WaitGroup
	var got, sent atomic.Int64
	for c := 0; c < nClients; c++ {
		wg.Add(1)
		go func(c int) {
			defer wg.Done()
			conn, err := net.DialUDP("udp4", nil, addr)
			if err != nil {
				return
			}
			defer conn.Close()
			type req struct{ name, ip string }
			outstanding := map[uint16]req{}
			answered := map[uint16]bool{}
			for i := 0; i < mReq; i++ {
				outstanding[uint16(c*4000+i+1)] = req{llName(c, i), llIP(c, i)}
			}
			lwindow := make(chan struct{}, 8)
			for k := 0; k < cap(lwindow); k++ {
				lwindow <- struct{}{}
			}
			fin := make(chan struct{})
			go func() {
				defer close(fin)
				buf := make([]byte, 2048)
				for len(answered) < mReq {
					conn.SetReadDeadline(time.Now().Add(1500 * time.Millisecond))
					n, err := conn.Read(buf)
					if err != nil {
						return
					}
					evals.Add(1)
					got.Add(1)
					raw := append([]byte{}, buf[:n]...)
					cs := map[string]any{"scenario": scen, "response": hex.EncodeToString(raw)}
					m, err := llmnr.DecodeMessage(raw)
					if err != nil {
						viol("llmnr.Server:response-unparseable", err.Error(), cs)
						continue
					}
					rq, ok := outstanding[m.ID]
					if !ok {
						viol("llmnr.Server:foreign-id", fmt.Sprintf("response id %#04x was never sent by this socket", m.ID), cs)
						continue
					}
					if answered[m.ID] {
						viol("llmnr.Server:duplicate-response", fmt.Sprintf("two responses for id %#04x", m.ID), cs)
						continue
					}
					answered[m.ID] = true
					select {
					case lwindow <- struct{}{}:
					default:
					}
					if len(m.Answers) != 1 || m.Answers[0].Name != rq.name || net.IP(m.Answers[0].RData).String() != rq.ip || !m.IsResponse() {
						viol("llmnr.Server:cross-talk", fmt.Sprintf("request %#04x asked %s (%s); the response with that id is %+v", m.ID, rq.name, rq.ip, m.Answers), cs)
					}
				}
			}()
			for i := 0; i < mReq; i++ {
				q := llmnr.NewMessage()
				q.ID = uint16(c*4000 + i + 1)
				q.SetQuery()
				q.AddQuestion(llName(c, i), llmnr.TypeA, llmnr.ClassIN)
				b, _ := q.Encode()
				// datagrams a server must shrug off, in between the queries: a response (QR=1),
				// garbage, a truncated query
				switch i % 7 {
				case 2:
					rb := append([]byte{}, b...)
					rb[2] |= 0x80
					rb[0], rb[1] = 0xEE, byte(i)
					conn.Write(rb)
				case 4:
					conn.Write([]byte{0xde, 0xad, 0xbe, 0xef, byte(i)})
				case 6:
					conn.Write(b[:len(b)/2])
				}
				select {
				case <-lwindow:
				case <-time.After(300 * time.Millisecond):
				}
				conn.Write(b)
				sent.Add(1)
			}
			<-fin
			// requests still without a response: loss is not expected on a loopback socket driven in a
			// closed loop, but is tolerated once. A request that is repeated four times, alone, with
			// a second to answer each, and never answered while the server is up has been dropped
			// by the server.
			tried := 0
			for i := 0; i < mReq && tried < 4; i++ {
				id := uint16(c*4000 + i + 1)
				if answered[id] {
					continue
				}
				tried++
				q := llmnr.NewMessage()
				q.ID = id
				q.SetQuery()
				q.AddQuestion(llName(c, i), llmnr.TypeA, llmnr.ClassIN)
				b, _ := q.Encode()
				ok := false
				buf := make([]byte, 2048)
				for attempt := 0; attempt < 4 && !ok; attempt++ {
					conn.Write(b)
					conn.SetReadDeadline(time.Now().Add(time.Second))
					for {
						n, err := conn.Read(buf)
						if err != nil {
							break
						}
						if m, err := llmnr.DecodeMessage(append([]byte{}, buf[:n]...)); err == nil && m.ID == id {
							ok = true
							break
						}
					}
				}
				evals.Add(1)
				if !ok {
					viol("llmnr.Server:request-never-answered", fmt.Sprintf("query %#04x for %s got no response: neither in the run nor when repeated alone four times, one second apart", id, llName(c, i)), map[string]any{"scenario": scen, "client": c, "request": i})
					break
				}
				count("llmnr_requests_answered_only_when_repeated", 1)
			}
		}(c)
	}
	wg.Wait()
	closed := within(progressLimit, func() { srv.Close() })
	var serveReturned bool
	select {
	case <-done:
		serveReturned = true
	case <-mon.AfterSteps(progressLimit):
	}
	if !closed || !serveReturned {
		_, d := libGoroutines("network/llmnr.")
		viol("shutdown.llmnr.Server:serve-hung", "Serve did not return after Close within the bounded-progress limit", map[string]any{"scenario": scen, "goroutines": d})
	}
	if sent.Load() > 0 && got.Load()*2 < sent.Load() {
		inconclusive(fmt.Sprintf("%s: only %d of %d requests answered", scen, got.Load(), sent.Load()))
	}
	count("llmnr_requests", int(sent.Load()))
	count("llmnr_responses", int(got.Load()))
	sig, maxOut := tr.signature()
	if maxOut > 1 {
		count("scenarios_with_overlapping_requests", 1)
	}
	nontrivial(fmt.Sprintf("llmnr-pairing|%d|%s", nClients, sig))
}

// llmnrCloseFromHandler: handlers receive the *Server, so "stop the server" can come from a handler.
func llmnrCloseFromHandler(trials int) {
	for t := 0; t < trials; t++ {
		conn, err := net.ListenUDP("udp4", &net.UDPAddr{IP: net.IP{127, 0, 0, 1}})
		if err != nil {
			return
		}
		var seen atomic.Int64
		closeAt := int64(1 + t%4)
		closeReturned := make(chan struct{}, 1)
		h := llmnr.HandlerFunc(func(s *llmnr.Server, remote net.Addr, w llmnr.ResponseWriter, m *llmnr.Message) bool {
			if seen.Add(1) == closeAt {
				s.Close()
				select {
				case closeReturned <- struct{}{}:
				default:
				}
			}
			return false
		})
		srv, _ := llmnr.NewServer("udp4", []llmnr.Handler{h})
		srv.Conn = conn
		done := make(chan error, 1)
		go func() { done <- srv.Serve() }()
		c, _ := net.DialUDP("udp4", nil, conn.LocalAddr().(*net.UDPAddr))
		for i := 0; i < 6; i++ {
			q := llmnr.NewMessage()
			q.SetQuery()
			q.AddQuestion(llName(0, i), llmnr.TypeA, llmnr.ClassIN)
			b, _ := q.Encode()
			c.Write(b)
		}
		evals.Add(1)
		cs := map[string]any{"trial": t, "close_called_by_handler_of_request": closeAt}
		ok := true
		select {
		case <-closeReturned:
		case <-mon.AfterSteps(progressLimit):
			ok = false
		}
		if ok {
			select {
			case <-done:
			case <-mon.AfterSteps(progressLimit):
				ok = false
			}
		}
		c.Close()
		if !ok {
			_, d := libGoroutines("network/llmnr.")
			cs["goroutines"] = d
			viol("shutdown.llmnr.Server:close-from-handler-hung", "Close called from a handler did not return, or Serve did not return after it, within the bounded-progress limit", cs)
			return
		}
		if !within(progressLimit, func() { srv.Close() }) {
			viol("shutdown.llmnr.Server:close-from-handler-hung", "a second Close after a Close from a handler did not return", cs)
			return
		}
		nontrivial(fmt.Sprintf("close-from-handler|%d", closeAt))
	}
	if n, d := waitNoLibGoroutines(10*time.Second, "network/llmnr."); n > 0 {
		viol("shutdown.llmnr.Server:goroutine-leak", fmt.Sprintf("%d goroutine(s) still alive after Close from a handler", n), map[string]any{"goroutines": d})
	}
}

func llmnrShutdown(trials int) {
	r := rng("llmnr-shutdown")
	for t := 0; t < trials; t++ {
		tr.reset(t % 3)
		llmnrDebug = t%4 == 3
		srv, sconn, done, err := startLLMNR()
		llmnrDebug = false
		if err != nil {
			inconclusive("llmnr-shutdown: " + err.Error())
			return
		}
		k := []int{0, 1, 5, 25}[r.IntN(4)]
		conn, _ := net.DialUDP("udp4", nil, sconn.LocalAddr().(*net.UDPAddr))
		for i := 0; i < k; i++ {
			q := llmnr.NewMessage()
			q.SetQuery()
			q.AddQuestion(llName(0, i), llmnr.TypeA, llmnr.ClassIN)
			b, _ := q.Encode()
			if i%3 == 1 {
				rb := append([]byte{}, b...)
				rb[2] |= 0x80 // a response datagram: must be ignored
				conn.Write(rb)
			}
			conn.Write(b)
		}
		evals.Add(1)
		cs := map[string]any{"trial": t, "requests_sent_before_close": k, "debug": t%4 == 3}
		closed := within(progressLimit, func() { srv.Close(); srv.Close() })
		ret := false
		select {
		case <-done:
			ret = true
		case <-mon.AfterSteps(progressLimit):
		}
		conn.Close()
		if !closed || !ret {
			_, d := libGoroutines("network/llmnr.")
			cs["goroutines"] = d
			viol("shutdown.llmnr.Server:serve-hung", "Serve did not return after Close within the bounded-progress limit", cs)
			return
		}
		if n, d := waitNoLibGoroutines(10*time.Second, "network/llmnr."); n > 0 {
			cs["goroutines"] = d
			viol("shutdown.llmnr.Server:goroutine-leak", fmt.Sprintf("%d goroutine(s) still alive 10 s after Close", n), cs)
			return
		}
		nontrivial(fmt.Sprintf("llmnr-shutdown|k%d|%d", k, t%3))
	}
	count("shutdown_trials", trials)
	// Close concurrently with ListenAndServe (needs a multicast join; skipped if refused)
	joined := 0
	for t := 0; t < pick(6, 60); t++ {
		srv, err := llmnr.NewIPv4ServerWithHandlers([]llmnr.Handler{llmnrHandler()})
		if err != nil {
			break
		}
		res := make(chan error, 1)
		go func() { res <- srv.ListenAndServe() }()
		for y := 0; y < t%4; y++ {
			runtime.Gosched()
		}
		if t%3 == 2 {
			time.Sleep(2 * time.Millisecond)
		}
		srv.Close()
		evals.Add(1)
		select {
		case err := <-res:
			if err == nil {
				joined++
			}
		case <-mon.AfterSteps(progressLimit):
			_, d := libGoroutines("network/llmnr.")
			viol("shutdown.llmnr.Server:listenandserve-hung", "ListenAndServe did not return after a concurrent Close", map[string]any{"trial": t, "goroutines": d})
			return
		}
	}
	count("listenandserve_close_trials_joined", joined)
	if n, d := waitNoLibGoroutines(10*time.Second, "network/llmnr."); n > 0 {
		viol("shutdown.llmnr.Server:goroutine-leak", fmt.Sprintf("%d goroutine(s) still alive after Close concurrent with ListenAndServe", n), map[string]any{"goroutines": d})
	}
}

// padTo returns the encoding of m with an additional TXT record sized so that the whole message
// is exactly size octets (nil if that cannot be reached).
func padTo(m *llmnr.Message, size int) []byte {
	pad := llmnr.ResourceRecord{Name: "pad.example", Type: 16, Class: 1}
	m.Additional = append(m.Additional, pad)
	m.ARCount = uint16(len(m.Additional))
	k := len(m.Additional) - 1
	for try := 0; try < 4; try++ {
		b, err := m.Encode()
		if err != nil {
			return nil
		}
		if len(b) == size {
			return b
		}
		n := len(m.Additional[k].RData) + size - len(b)
		if n < 0 {
			return nil
		}
		m.Additional[k].RData = bytes.Repeat([]byte{0x2E}, n)
		m.Additional[k].RDLength = uint16(n)
	}
	return nil
}

// llmnrSizes: queries of every size up to the 512-octet MaxPacketSize are answered under their id.
func llmnrSizes() {
	srv, sconn, done, err := startLLMNR()
	if err != nil {
		inconclusive("llmnr-sizes: " + err.Error())
		return
	}
	defer func() {
		within(progressLimit, func() { srv.Close() })
		select {
		case <-done:
		case <-mon.AfterSteps(progressLimit):
		}
	}()
	conn, err := net.DialUDP("udp4", nil, sconn.LocalAddr().(*net.UDPAddr))
	if err != nil {
		return
	}
	defer conn.Close()
	baseline := false
	for i, size := range []int{0, 100, 300, 500, 510, 511, 512} {
		q := llmnr.NewMessage()
		q.ID = uint16(0x6100 + i)
		q.SetQuery()
		q.AddQuestion(llName(7, i), llmnr.TypeA, llmnr.ClassIN)
		b, _ := q.Encode()
		if size > 0 {
			if b = padTo(q, size); b == nil {
				inconclusive(fmt.Sprintf("llmnr-sizes: cannot build a %d-octet query", size))
				continue
			}
		}
		answered := false
		buf := make([]byte, 4096)
		for attempt := 0; attempt < 4 && !answered; attempt++ {
			conn.Write(b)
			conn.SetReadDeadline(time.Now().Add(time.Second))
			for {
				n, err := conn.Read(buf)
				if err != nil {
					break
				}
				if m, err := llmnr.DecodeMessage(append([]byte{}, buf[:n]...)); err == nil && m.ID == q.ID {
					answered = true
					if len(m.Answers) != 1 || m.Answers[0].Name != llName(7, i) || net.IP(m.Answers[0].RData).String() != llIP(7, i) {
						viol("llmnr.Server:cross-talk", fmt.Sprintf("a %d-octet query for %s is answered with %+v", len(b), llName(7, i), m.Answers), map[string]any{"query": hex.EncodeToString(b)})
					}
					break
				}
			}
		}
		evals.Add(1)
		switch {
		case answered && size == 0:
			baseline = true
		case !answered && size == 0:
			inconclusive("llmnr-sizes: the plain query is not answered (environment)")
			return
		case !answered && baseline:
			viol("llmnr.Server:query-unanswered:size", fmt.Sprintf("a well-formed query of %d octets (MaxPacketSize is 512) got no response in four attempts; the same query without padding is answered", len(b)), map[string]any{"size": len(b), "query": hex.EncodeToString(b)})
		}
		nontrivial(fmt.Sprintf("llmnr-size|%d", size))
	}
}

// ------------------------------------------------------------------ LLMNR client vs scripted responder

func llmnrClient() {
	resp, err := net.ListenUDP("udp4", &net.UDPAddr{IP: net.IP{127, 0, 0, 1}})
	if err != nil {
		inconclusive("llmnr-client: " + err.Error())
		return
	}
	defer resp.Close()
	llmnr.VerifQueryDest = resp.LocalAddr().(*net.UDPAddr)
	defer func() { llmnr.VerifQueryDest = nil }()
	// name -> id the client used (as seen on the wire)
	var mu sync.Mutex
	idOf := map[string]uint16{}
	mkResp := func(id uint16, name, ip string, isResponse bool) []byte {
		m := llmnr.NewMessage()
		m.ID = id
		m.AddQuestion(name, llmnr.TypeA, llmnr.ClassIN)
		m.AddAnswerClassINTypeA(name, ip)
		if isResponse {
			m.SetResponse()
		} else {
			m.SetQuery()
		}
		b, _ := m.Encode()
		return b
	}
	type pending struct {
		pkt  []byte
		addr *net.UDPAddr
	}
	go func() { // scripted responder
		buf := make([]byte, 2048)
		var held []pending
		for {
			n, from, err := resp.ReadFromUDP(buf)
			if err != nil {
				return
			}
			q, err := llmnr.DecodeMessage(append([]byte{}, buf[:n]...))
			if err != nil || len(q.Questions) == 0 {
				continue
			}
			name := strings.TrimSuffix(q.Questions[0].Name, ".")
			mu.Lock()
			idOf[name] = q.ID
			mu.Unlock()
			good := mkResp(q.ID, name, ipForName(name), true)
			// release anything held by an earlier "late"/"swap" query first or after, per script
			switch {
			case strings.HasPrefix(name, "big"):
				// the same answer in a message of exactly 300 / 511 / 512 octets
				var size int
				fmt.Sscanf(name, "big%d-", &size)
				m := llmnr.NewMessage()
				m.ID = q.ID
				m.AddQuestion(name, llmnr.TypeA, llmnr.ClassIN)
				m.AddAnswerClassINTypeA(name, ipForName(name))
				m.SetResponse()
				if b := padTo(m, size); b != nil {
					resp.WriteToUDP(b, from)
				} else {
					resp.WriteToUDP(good, from)
				}
			case strings.HasPrefix(name, "ok"):
				resp.WriteToUDP(good, from)
			case strings.HasPrefix(name, "dup"):
				resp.WriteToUDP(good, from)
				resp.WriteToUDP(good, from)
			case strings.HasPrefix(name, "foreign"):
				resp.WriteToUDP(mkResp(q.ID^0x5A5A, name, "6.6.6.6", true), from)
				resp.WriteToUDP(mkResp(q.ID+1, "other.example", "6.6.6.6", true), from)
				resp.WriteToUDP(good, from)
			case strings.HasPrefix(name, "query"):
				resp.WriteToUDP(mkResp(q.ID, name, "6.6.6.6", false), from)
				resp.WriteToUDP(good, from)
			case strings.HasPrefix(name, "late"), strings.HasPrefix(name, "swap"):
				held = append(held, pending{good, from})
				if len(held) >= 2 {
					for i := len(held) - 1; i >= 0; i-- { // reverse order
						resp.WriteToUDP(held[i].pkt, held[i].addr)
					}
					held = nil
				}
				continue
			case strings.HasPrefix(name, "none"):
			}
			if len(held) > 0 && !strings.HasPrefix(name, "none") {
				for i := len(held) - 1; i >= 0; i-- {
					resp.WriteToUDP(held[i].pkt, held[i].addr)
				}
				held = nil
			}
		}
	}()
	tr.reset(1)
	cl, err := llmnr.NewClient()
	if err != nil {
		inconclusive("llmnr-client: " + err.Error())
		return
	}
	cl.Timeout = 400 * time.Millisecond
	kinds := []string{"ok", "dup", "foreign", "query", "late", "swap", "none", "ok", "swap", "late", "big300", "big511", "big512"}
	G := pick(6, 12)
	per := pick(25, 300)
	var wg sync.WaitGroup
	var answered, timedOut, answeredFQ atomic.Int64
	for g := 0; g < G; g++ {
		wg.Add(1)
		go func(g int) {
			defer wg.Done()
			r := rng(fmt.Sprintf("client|%d", g))
			for i := 0; i < per; i++ {
				kind := kinds[r.IntN(len(kinds))]
				name := fmt.Sprintf("%s-g%02d-%04d.example", kind, g, i)
				asked := name
				if i%5 == 4 && (kind == "ok" || kind == "dup" || kind == "foreign" || kind == "query") { // scripts that answer at once
					asked = name + "." // the fully-qualified spelling of the same name
				}
				if strings.HasPrefix(kind, "big") {
					// answered at once with a message of a chosen size: judged like the scripts above
					var m *llmnr.Message
					var err error
					p := false
					for attempt := 0; attempt < 4 && (m == nil || err != nil) && !p; attempt++ {
						p, _, _ = mon.Guard(func() { m, err = cl.Query(context.Background(), name, llmnr.TypeA) })
					}
					evals.Add(1)
					if !p && (err != nil || m == nil) {
						viol("llmnr.Client.Query:sized-response-not-delivered", fmt.Sprintf("Query(%q) returned %v in four attempts although the responder answers at once with a well-formed message of %s octets", name, err, kind[3:]), map[string]any{"query_name": name, "script": kind})
						continue
					}
				}
				var m *llmnr.Message
				var err error
				p, pv, st := mon.Guard(func() { m, err = cl.Query(context.Background(), asked, llmnr.TypeA) })
				for attempt := 0; attempt < 3 && asked != name && !p && (err != nil || m == nil); attempt++ {
					// the client's own timeout is wall-clock: a loaded machine may lose one round;
					// only a name that is never answered in four rounds is judged
					p, pv, st = mon.Guard(func() { m, err = cl.Query(context.Background(), asked, llmnr.TypeA) })
				}
				if asked != name && err == nil && m != nil {
					answeredFQ.Add(1)
				}
				if asked != name && (err != nil || m == nil) && !p {
					// the responder answers every such query at once: nothing to wait for
					viol("llmnr.Client.Query:fully-qualified-name-unanswered", fmt.Sprintf("Query(%q) (script %s) returned %v in four attempts although the responder answers that script at once", asked, kind, err), map[string]any{"query_name": asked, "script": kind})
				}
				evals.Add(1)
				cs := map[string]any{"query_name": name, "script": kind}
				if p {
					viol("llmnr.Client.Query:panic", fmt.Sprintf("%v at %s", pv, mon.TopLibFrame(st)), cs)
					continue
				}
				if err != nil || m == nil {
					timedOut.Add(1)
					continue
				}
				answered.Add(1)
				mu.Lock()
				want, seen := idOf[name]
				mu.Unlock()
				okAns := len(m.Answers) == 1 && strings.TrimSuffix(m.Answers[0].Name, ".") == name && net.IP(m.Answers[0].RData).String() == ipForName(name)
				if !seen || m.ID != want || !okAns || !m.IsResponse() {
					cs["returned"] = fmt.Sprintf("%+v", *m)
					viol("llmnr.Client.Query:wrong-response", fmt.Sprintf("Query(%s) (wire id %#04x) returned a message with id %#04x answering %+v", name, want, m.ID, m.Answers), cs)
				}
				nontrivial("client|" + kind)
			}
		}(g)
	}
	wg.Wait()
	count("llmnr_client_queries_answered", int(answered.Load()))
	count("llmnr_client_queries_timed_out", int(timedOut.Load()))
	count("llmnr_client_fully_qualified_queries_answered", int(answeredFQ.Load()))
	if answered.Load() < int64(G*per/4) {
		inconclusive(fmt.Sprintf("llmnr-client: only %d of %d queries answered", answered.Load(), G*per))
	}
	// Close: read loop must exit; Query after Close must fail
	if !within(progressLimit, func() { cl.Close(); cl.Close() }) {
		viol("shutdown.llmnr.Client:close-hung", "Close did not return", nil)
	}
	if n, d := waitNoLibGoroutines(10*time.Second, "llmnr.(*Client)"); n > 0 {
		viol("shutdown.llmnr.Client:goroutine-leak", fmt.Sprintf("%d client goroutine(s) alive 10 s after Close", n), map[string]any{"goroutines": d})
	}
	var m *llmnr.Message
	p, _, _ := mon.Guard(func() { m, err = cl.Query(context.Background(), "ok-after-close.example", llmnr.TypeA) })
	evals.Add(1)
	if !p && err == nil && m != nil {
		viol("llmnr.Client.Query:after-close", "Query on a closed client returned a message", nil)
	}
	// start/stop clients repeatedly with queries in flight
	for t := 0; t < pick(20, 300); t++ {
		c2, err := llmnr.NewClient()
		if err != nil {
			break
		}
		c2.Timeout = 100 * time.Millisecond
		var w2 sync.WaitGroup
		var emptyHanded atomic.Int64
		for k := 0; k < t%3; k++ {
			w2.Add(1)
			go func(k int) {
				defer w2.Done()
				var m *llmnr.Message
				var qerr error
				p, _, _ := mon.Guard(func() {
					m, qerr = c2.Query(context.Background(), fmt.Sprintf("none-t%d-%d.example", t, k), llmnr.TypeA)
				})
				if !p && m == nil && qerr == nil {
					emptyHanded.Add(1)
				}
			}(k)
		}
		// let the queries get as far as waiting for their responses (they register themselves in
		// the client's table first); bounded, and not a verdict
		for spin := 0; spin < 200; spin++ {
			waiting := 0
			c2.Queries.Range(func(_, _ any) bool { waiting++; return true })
			if waiting >= t%3 {
				break
			}
			time.Sleep(250 * time.Microsecond)
		}
		if t%2 == 1 {
			time.Sleep(time.Duration(t%7) * time.Millisecond)
		}
		ok := within(progressLimit, func() { c2.Close() })
		w2.Wait()
		evals.Add(1)
		if n := emptyHanded.Load(); n > 0 {
			viol("llmnr.Client.Query:no-response-no-error", fmt.Sprintf("%d Query call(s) in flight when Close was called returned neither a response nor an error: nobody answered them", n), map[string]any{"trial": t, "queries_in_flight": t % 3})
		}
		count("llmnr_client_closes_with_queries_waiting", t%3)
		if !ok {
			viol("shutdown.llmnr.Client:close-hung", "Close did not return with queries in flight", map[string]any{"trial": t})
			break
		}
	}
	if n, d := waitNoLibGoroutines(10*time.Second, "llmnr.(*Client)"); n > 0 {
		viol("shutdown.llmnr.Client:goroutine-leak", fmt.Sprintf("%d client goroutine(s) alive 10 s after Close", n), map[string]any{"goroutines": d})
	}
	emit(childLine{T: "s", V: map[string]any{"scenario": "llmnr-client", "scripts": kinds, "goroutines": G, "queries_each": per, "answered": answered.Load(), "timed_out": timedOut.Load()}})
}

func ipForName(name string) string {
	h := 0
	for _, c := range name {
		h = h*31 + int(c)
	}
	return fmt.Sprintf("10.%d.%d.%d", 1+(h>>16)&0x7F, (h>>8)&0xFF, h&0xFF)
}

// ------------------------------------------------------------------ NBNS ownership challenge (client side)

// nbChallenges: ChallengeOwnership asks the presumed owner (port 137 of its address) whether it
// still holds a name. Scripted owners on 127.0.18.k:137 answer at once, only the retransmission,
// with a foreign id first, with another address, negatively, or never. Needs the right to bind
// port 137; skipped (and counted) otherwise.
func nbChallenges() {
	type script struct {
		name string
		want bool
	}
	scripts := []script{{"at-once", true}, {"retry-only", true}, {"foreign-id-then-right", true}, {"other-address", false}, {"name-error", false}, {"silent", false}, {"garbage-then-right", true},
		{"foreign-id-name-error-then-right", true}, {"foreign-id-right-then-name-error", false}, {"query-echo-then-right", true}}
	var wg sync.WaitGroup
	skipped := 0
	for k, sc := range scripts {
		ip := net.IP{127, 0, 18, byte(10 + k)}
		conn, err := net.ListenUDP("udp4", &net.UDPAddr{IP: ip, Port: 137})
		if err != nil {
			skipped++
			continue
		}
		wg.Add(1)
		go func(k int, sc script, ip net.IP, conn *net.UDPConn) {
			defer wg.Done()
			defer conn.Close()
			stop := make(chan struct{})
			go func() { // scripted owner
				buf := make([]byte, 2048)
				seen := 0
				for {
					conn.SetReadDeadline(time.Now().Add(200 * time.Millisecond))
					n, from, err := conn.ReadFromUDP(buf)
					select {
					case <-stop:
						return
					default:
					}
					if err != nil {
						continue
					}
					var req nbtns.NBTNSPacket
					if _, err := req.Unmarshal(append([]byte{}, buf[:n]...)); err != nil || len(req.Questions) == 0 {
						continue
					}
					seen++
					answer := func(id uint16, addr net.IP, rcode uint16) {
						resp := &nbtns.NBTNSPacket{Header: nbtns.NBTNSHeader{TransactionID: id, Flags: 0x8400 | rcode}}
						if rcode == 0 {
							resp.Header.Answers = 1
							resp.Answers = []nbtns.NBTNSResourceRecord{{Name: req.Questions[0].Name, Type: 0x20, Class: 1, TTL: 60, RDLength: uint16(len(addr)), RData: addr}}
						}
						if b, err := resp.Marshal(); err == nil {
							conn.WriteToUDP(b, from)
						}
					}
					id := req.Header.TransactionID
					switch sc.name {
					case "at-once":
						answer(id, ip.To4(), 0)
					case "retry-only":
						if seen >= 2 {
							answer(id, ip.To4(), 0)
						}
					case "foreign-id-then-right":
						answer(id^0x0101, net.IP{10, 9, 9, 9}, 0)
						answer(id, ip.To4(), 0)
					case "foreign-id-name-error-then-right":
						// a stray negative response of another transaction, then the genuine answer
						answer(id^0x5A5A, nil, 3)
						time.Sleep(5 * time.Millisecond)
						answer(id, ip.To4(), 0)
					case "foreign-id-right-then-name-error":
						answer(id^0x5A5A, ip.To4(), 0)
						time.Sleep(5 * time.Millisecond)
						answer(id, nil, 3)
					case "query-echo-then-right":
						conn.WriteToUDP(append([]byte{}, buf[:n]...), from) // the request itself bounced back (R bit clear)
						answer(id, ip.To4(), 0)
					case "other-address":
						answer(id, net.IP{10, 9, 9, 9}, 0)
					case "name-error":
						answer(id, nil, 3)
					case "garbage-then-right":
						conn.WriteToUDP([]byte{1, 2, 3}, from)
						answer(id, ip.To4(), 0)
					}
				}
			}()
			ch := nbtns.NewNameChallenger(nbtns.NewNetBIOSNameServer(false), nil)
			var got bool
			var err error
			returned := within(60*time.Second, func() {
				p, pv, _ := mon.Guard(func() { got, err = ch.ChallengeOwnership("CHALLENGED", ip.To4()) })
				if p {
					err = fmt.Errorf("panic: %v", pv)
				}
			})
			close(stop)
			evals.Add(1)
			cs := map[string]any{"owner_script": sc.name, "owner": ip.String()}
			switch {
			case !returned:
				viol("nbns.ChallengeOwnership:hung", "ChallengeOwnership did not return", cs)
			case err != nil:
				viol("nbns.ChallengeOwnership:error:"+sc.name, fmt.Sprint(err), cs)
			case got != sc.want:
				viol("nbns.ChallengeOwnership:verdict:"+sc.name, fmt.Sprintf("owner script %q: ChallengeOwnership says held=%v, the owner's answers say %v", sc.name, got, sc.want), cs)
			}
			nontrivial("challenge|" + sc.name)
		}(k, sc, ip, conn)
	}
	wg.Wait()
	count("challenge_scripts_run", len(scripts)-skipped)
	count("challenge_scripts_skipped_no_port_137", skipped)
}

// ------------------------------------------------------------------ child main

func child() {
	var err error
	outF, err = os.OpenFile(os.Getenv("VERIF_C18_RES"), os.O_CREATE|os.O_WRONLY|os.O_APPEND, 0o644)
	if err != nil {
		os.Exit(2)
	}
	thorough = os.Getenv("VERIF_TIER") == "thorough"
	seed, _ = strconv.ParseInt(os.Getenv("VERIF_SEED"), 10, 64)
	nbtns.VerifHook = tr.hook
	llmnr.VerifHook = tr.hook

	for _, kind := range []string{"Server", "UDPServer", "TCPServer"} {
		nbOpcodes(kind)
	}
	for _, kind := range []string{"Server", "UDPServer", "TCPServer"} {
		nbGroups(kind)
		nbSameID(kind)
	}
	nbRuntFrames()
	for _, kind := range []string{"Server", "UDPServer", "TCPServer"} {
		nbRequesterFlags(kind)
		nbMultiQuestion(kind)
	}
	nbStreamSizes()
	nbSplitFrames()
	nbRedirects()
	runs := pick(2, 12)
	for _, kind := range []string{"Server", "UDPServer"} {
		for _, nc := range []int{2, 4, 8, 16} {
			for mode := 0; mode < 3; mode++ {
				for run := 0; run < runs; run++ {
					nbPairingUDP(kind, nc, pick(40, 100), mode, run)
				}
			}
		}
	}
	for _, nc := range []int{1, 3, 8} {
		for run := 0; run < pick(3, 20); run++ {
			nbPairingTCP(nc, pick(30, 100), run)
		}
	}
	for _, nc := range []int{2, 8, 16} {
		for mode := 0; mode < 3; mode++ {
			for run := 0; run < runs; run++ {
				llmnrPairing(nc, pick(40, 100), mode, run)
			}
		}
	}
	for _, kind := range []string{"Server", "UDPServer", "TCPServer"} {
		nbShutdown(kind, pick(60, 1500))
	}
	llmnrSizes()
	llmnrShutdown(pick(60, 1500))
	llmnrCloseFromHandler(pick(12, 200))
	nbChallenges()
	llmnrClient()
	emit(childLine{T: "c", Key: "evaluations", N: evals.Load()})
	emit(childLine{T: "done"})
}
