// C18: name-service servers/clients isolate concurrent requests and stop cleanly.
//
// Parent: runs the scenarios in a child (this binary, -race) with
// GORACE=halt_on_error=0 log_path=..., then reads the child's verdict lines and the race
// logs. Child: NBNS Server/UDPServer/TCPServer and LLMNR Server/Client on loopback sockets;
// request/response pairing recorder, opcode routing sweep, shutdown trials with
// goroutine-leak and bounded-progress monitors, hook-point trace.
package main

import (
	"bufio"
	"encoding/json"
	"fmt"
	"os"
	"os/exec"
	"path/filepath"
	"regexp"
	"sort"
	"strconv"
	"strings"

	"verif/mon"
)

type childLine struct {
	T    string         `json:"t"` // "v" violation, "c" counter, "nt" nontrivial, "s" sample, "i" inconclusive, "x" extra
	Key  string         `json:"key,omitempty"`
	What string         `json:"what,omitempty"`
	Case map[string]any `json:"case,omitempty"`
	N    int64          `json:"n,omitempty"`
	V    any            `json:"v,omitempty"`
}

var frameLine = regexp.MustCompile(`^\s+(github\.com/TheManticoreProject/Manticore/\S+?)\(`)
var anyFrame = regexp.MustCompile(`^  (\S+)\(`)

// parseRaces splits race logs into reports and keys each by the outermost
// Manticore frames of the first two stacks.
func parseRaces(work string) (reports []map[string]any) {
	files, _ := filepath.Glob(filepath.Join(work, "race.*"))
	for _, f := range files {
		b, err := os.ReadFile(f)
		if err != nil {
			continue
		}
		blocks := strings.Split(string(b), "==================")
		for _, blk := range blocks {
			if !strings.Contains(blk, "WARNING: DATA RACE") {
				continue
			}
			// stacks are separated by blank lines; take the frames of each stack
			var stacks [][]string
			var cur []string
			for _, l := range strings.Split(blk, "\n") {
				if strings.TrimSpace(l) == "" {
					if len(cur) > 0 {
						stacks = append(stacks, cur)
						cur = nil
					}
					continue
				}
				if m := anyFrame.FindStringSubmatch(l); m != nil {
					cur = append(cur, m[1])
				}
			}
			if len(cur) > 0 {
				stacks = append(stacks, cur)
			}
			var keys []string
			lib := false
			for i, st := range stacks {
				if i >= 2 {
					break
				}
				// outermost (last) Manticore frame; else innermost frame
				k := ""
				for _, fr := range st {
					if strings.Contains(fr, "TheManticoreProject/Manticore/") {
						k = strings.TrimPrefix(fr, "github.com/TheManticoreProject/Manticore/")
						lib = true
					}
				}
				if k == "" && len(st) > 0 {
					k = "harness:" + st[len(st)-1]
				}
				keys = append(keys, k)
			}
			sort.Strings(keys)
			txt := blk
			if len(txt) > 4000 {
				txt = txt[:4000]
			}
			reports = append(reports, map[string]any{"key": strings.Join(keys, "|"), "lib": lib, "text": txt})
		}
	}
	return
}

func main() {
	if os.Getenv("VERIF_C18_CHILD") != "" {
		child()
		return
	}
	r := mon.Start("C18", "exploration")
	r.Rule("NBNS Server/UDPServer/TCPServer and LLMNR Server/Client on loopback: N concurrent clients x M requests with unique (transaction id, name); every response must pair with exactly one request of that socket and carry that request's answer. All 16 NBNS opcodes x 3 server types (exhaustive) for routing. Stop/Close at seeded logical points relative to traffic; bounded-progress and goroutine-leak monitors; whole run under the race detector with a recvfrom annotation. Distinct/non-trivial: distinct (scenario, client count, interleaving signature of recv/handle/send hook events) and (server, opcode) probes answered.")
	r.Assume("loopback sockets; UDP loss tolerated (a run with < 50% of responses is inconclusive)", "bounded progress: Stop/Close must return and Manticore goroutines must be gone within 20 s (400x the normal latency)", "requests are built and responses parsed with the library's own NBNS codec (its conformance is C10's subject)")
	work := os.Getenv("VERIF_WORK")
	if work == "" {
		work, _ = os.MkdirTemp("/verif/.work", "c18")
	}
	bin := os.Getenv("VERIF_BIN")
	if bin == "" {
		bin, _ = os.Executable()
	}
	resPath := filepath.Join(work, "c18.res")
	cmd := exec.Command(bin)
	cmd.Env = append(os.Environ(), "VERIF_C18_CHILD=1", "VERIF_C18_RES="+resPath,
		"GORACE=halt_on_error=0 history_size=5 log_path="+filepath.Join(work, "race"), "VERIF_TIER="+r.Tier, fmt.Sprintf("VERIF_SEED=%d", r.Seed))
	errf, _ := os.Create(filepath.Join(work, "c18.stderr"))
	outf, _ := os.Create(filepath.Join(work, "c18.stdout"))
	cmd.Stderr, cmd.Stdout = errf, outf
	err := cmd.Run()
	errf.Close()
	outf.Close()
	finished := false
	if f, e := os.Open(resPath); e == nil {
		sc := bufio.NewScanner(f)
		sc.Buffer(make([]byte, 1<<20), 1<<26)
		for sc.Scan() {
			var l childLine
			if json.Unmarshal(sc.Bytes(), &l) != nil {
				continue
			}
			switch l.T {
			case "v":
				r.Violation(l.Key, l.What, l.Case)
			case "c":
				if l.Key == "evaluations" {
					r.Eval(int(l.N))
				} else {
					r.Count(l.Key, int(l.N))
				}
			case "nt":
				r.Nontrivial(l.Key)
			case "s":
				r.Sample(l.V)
			case "i":
				r.Inconclusive(l.What)
			case "x":
				r.Extra(l.Key, l.V)
			case "done":
				finished = true
			}
		}
		f.Close()
	}
	if !finished {
		b, _ := os.ReadFile(filepath.Join(work, "c18.stderr"))
		s := string(b)
		i := strings.Index(s, "fatal error:")
		if i < 0 {
			i = strings.Index(s, "panic:")
		}
		if i >= 0 && strings.Contains(s, "TheManticoreProject/Manticore/") {
			e := s[i:]
			first := e
			if j := strings.IndexByte(first, '\n'); j >= 0 {
				first = first[:j]
			}
			if len(e) > 5000 {
				e = e[:5000]
			}
			r.Violation("crash:"+strings.ReplaceAll(first, " ", "-"), "the server/client process crashed: "+first, map[string]any{"stderr": e})
		} else {
			tail := s
			if len(tail) > 3000 {
				tail = tail[len(tail)-3000:]
			}
			r.Inconclusive(fmt.Sprintf("scenario process ended without finishing (err=%v): %s", err, tail))
		}
	}
	races := parseRaces(work)
	distinct := map[string]int{}
	for _, rp := range races {
		k := rp["key"].(string)
		distinct[k]++
		if rp["lib"].(bool) {
			r.Violation("race:"+k, "data race reported by the Go race detector between "+k, map[string]any{"report": rp["text"]})
		} else {
			r.Inconclusive("race report whose stacks are all in harness code: " + k)
		}
	}
	r.Extra("race_reports", len(races))
	r.Extra("race_reports_distinct", distinct)
	_ = strconv.Itoa
	r.Finish()
}
