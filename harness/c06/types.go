package main

import (
	"bytes"
	"encoding/binary"
	"fmt"
	"math/rand/v2"
	"strings"

	"github.com/TheManticoreProject/Manticore/network/smb/smb_v10/message/commands/andx"
	"github.com/TheManticoreProject/Manticore/network/smb/smb_v10/message/commands/codes"
	"github.com/TheManticoreProject/Manticore/network/smb/smb_v10/message/data"
	"github.com/TheManticoreProject/Manticore/network/smb/smb_v10/message/parameters"
	"github.com/TheManticoreProject/Manticore/network/smb/smb_v10/spnego/ntlm/version"
	"github.com/TheManticoreProject/Manticore/network/smb/smb_v10/types"
	"github.com/TheManticoreProject/Manticore/windows/ms_dtyp/common/data_structures"

	"verif/mon"
)

func sample(sp *spec, desc string, enc []byte) {
	if sp.n == 3 {
		r.Sample(map[string]any{"type": sp.name, "value": desc, "own_encoding_hex": mon.Hex(enc), "own_encoding_len": len(enc),
			"judged": "alone, reused receiver, +1 byte, +0x00 run, +0xFF run, +random 1..64, +another encoding, +another encoding+random, strict prefixes"})
	}
}

// ---------------------------------------------------------------- strings

func strFields(s *types.SMB_STRING) []fv {
	return []fv{fu("BufferFormat", uint64(s.BufferFormat)), fu("Length", uint64(s.Length)), fb("Buffer", s.Buffer)}
}

var stringLengths = []int{0, 1, 2, 3, 12, 13, 127, 128, 254, 255, 256, 257, 1000, 32767, 32768, 65534, 65535}

func randLen(rng *rand.Rand) int {
	switch rng.IntN(200) {
	case 0:
		return 65535 - rng.IntN(3)
	case 1, 2:
		return rng.IntN(65536)
	}
	switch rng.IntN(6) {
	case 0:
		return rng.IntN(4)
	case 1:
		return 253 + rng.IntN(6)
	}
	return rng.IntN(300)
}

func refString(f byte, b []byte) []byte {
	switch f {
	case 1, 5:
		out := []byte{f, byte(len(b)), byte(len(b) >> 8)}
		return append(out, b...)
	case 2, 4:
		out := append([]byte{f}, b...)
		return append(out, 0)
	case 3:
		// as the library's decoder reads it: format, 16-bit length, that many octets, one terminator octet
		out := []byte{f, byte(len(b)), byte(len(b) >> 8)}
		return append(append(out, b...), 0)
	}
	return nil
}

func runStrings() {
	for f := byte(1); f <= 5; f++ {
		f := f
		name := fmt.Sprintf("SMB_STRING.fmt%02x", f)
		sp := newSpec(name, func(pre, buf []byte) (int, error, []fv) {
			s := &types.SMB_STRING{}
			if pre != nil {
				s.Unmarshal(pre)
			}
			n, err := s.Unmarshal(buf)
			return n, err, strFields(s)
		})
		nulTerminated := f == 2 || f == 4 // format 0x03 carries its length: any octets, NULs included
		one := func(content []byte, cname string, mode int) {
			desc := fmt.Sprintf("format=0x%02x len=%d content=%s ctor=%d", f, len(content), cname, mode)
			var s *types.SMB_STRING
			switch mode {
			case 0:
				s = &types.SMB_STRING{BufferFormat: f, Length: types.USHORT(len(content)), Buffer: append([]byte(nil), content...)}
			case 1:
				s = types.NewSMB_STRING(append([]byte(nil), content...))
				s.SetBufferFormat(f)
			default:
				s = &types.SMB_STRING{}
				s.SetBufferFormat(f)
				if err := s.SetString(string(content)); err != nil {
					r.Violation(name+".SetString:error", fmt.Sprintf("SetString refused a %d-byte string: %v", len(content), err), map[string]any{"len": len(content)})
					return
				}
			}
			enc, ok := marshal(name, desc, s.Marshal)
			if !ok {
				return
			}
			if want := refString(f, content); want != nil {
				layout(name, desc, enc, want)
			}
			want := []fv{fu("BufferFormat", uint64(f)), fu("Length", uint64(len(content))), fb("Buffer", content)}
			sp.judge(want, enc, len(content) > 0, desc)
			sample(sp, desc, enc)
		}
		mode := 0
		for _, n := range stringLengths {
			cs, names := contents(n, !nulTerminated)
			for i, c := range cs {
				one(c, names[i], mode%3)
				mode++
			}
		}
		// contents that begin like something else: byte-order marks, a format byte, a length prefix
		for pi, pre := range [][]byte{{0xFF, 0xFE}, {0xFE, 0xFF}, {0xEF, 0xBB, 0xBF}, {0xFF, 0xFE, 0x41, 0x01}, {0x04}, {0x02, 0x41}, {0x05, 0x01}, {0xFF}, {0xFE}, {0xFF, 0xFF}} {
			for _, tail := range []string{"", "A", "name.ext", `\\server\share`} {
				one(append(append([]byte(nil), pre...), tail...), fmt.Sprintf("prefix#%d+%d", pi, len(tail)), (pi+len(tail))%3)
			}
		}
		rng := r.Rand(name)
		for t := 0; t < r.Pick(1500, 40000); t++ {
			n := randLen(rng)
			var c []byte
			if nulTerminated {
				c = nulFree(rng, n)
			} else {
				c = rbytes(rng, n)
			}
			one(c, fmt.Sprintf("random#%d", t), t%3)
		}
	}

	// OEM_STRING (always format 0x04)
	sp := newSpec("OEM_STRING", func(pre, buf []byte) (int, error, []fv) {
		s := &types.OEM_STRING{}
		if pre != nil {
			s.Unmarshal(pre)
		}
		n, err := s.Unmarshal(buf)
		return n, err, strFields(&s.SMB_STRING)
	})
	one := func(content []byte, cname string, mode int) {
		desc := fmt.Sprintf("len=%d content=%s ctor=%d", len(content), cname, mode)
		var s *types.OEM_STRING
		switch mode {
		case 0:
			s = types.NewOEM_STRINGFromString(string(content))
		case 1:
			s = types.NewOEM_STRING()
			s.SetString(string(content))
		case 3:
			// the empty string as the zero value (no buffer at all), or as a decoded empty string cleared by its owner
			s = &types.OEM_STRING{}
			if len(content) > 0 {
				s.Buffer, s.Length = append([]byte(nil), content...), types.USHORT(len(content))
			}
		default:
			s = &types.OEM_STRING{}
			s.SetString(string(content))
		}
		enc, ok := marshal("OEM_STRING", desc, s.Marshal)
		if !ok {
			return
		}
		layout("OEM_STRING", desc, enc, refString(4, content))
		if got := s.GetString(); got != string(content) {
			r.Violation("OEM_STRING.GetString:value", fmt.Sprintf("GetString returned %d bytes, set %d", len(got), len(content)), map[string]any{"value": desc})
		}
		want := []fv{fu("BufferFormat", 4), fu("Length", uint64(len(content))), fb("Buffer", content)}
		sp.judge(want, enc, len(content) > 0, desc)
		sample(sp, desc, enc)
	}
	mode := 0
	for _, n := range stringLengths {
		cs, names := contents(n, false)
		for i, c := range cs {
			one(c, names[i], mode%4)
			mode++
		}
	}
	for m := 0; m < 4; m++ {
		one(nil, "empty", m)
	}
	// a value copy of a string (b := *a) set to another value is another string: the original
	// keeps its value and its encoding (a template entry copied for each element of a listing)
	for i, pair := range [][2]string{{"LPT1:", "IPC"}, {"A:", "IPC"}, {"TEMPLATE.TXT", "A"}, {"ABCDEFGH.IJK", "ZYXWVUTS.RQP"}, {"x", ""}, {"", "later"}} {
		for ctor := 0; ctor < 3; ctor++ {
			var a *types.OEM_STRING
			switch ctor {
			case 0:
				a = types.NewOEM_STRINGFromString(pair[0])
			case 1:
				a = types.NewOEM_STRING()
				a.SetString(pair[0])
			default:
				a = &types.OEM_STRING{}
				a.SetString("a longer earlier value")
				a.SetString(pair[0])
			}
			encA, _ := a.Marshal()
			encA = append([]byte{}, encA...)
			b := *a
			b.SetString(pair[1])
			encB, _ := b.Marshal()
			again, err := a.Marshal()
			r.Eval(1)
			cs := map[string]any{"original": pair[0], "copy_set_to": pair[1], "constructor": ctor}
			if err != nil || a.GetString() != pair[0] || !bytes.Equal(again, encA) {
				r.Violation("OEM_STRING.SetString:value-copy-writes-through", fmt.Sprintf("a := %q; b := *a; b.SetString(%q): a now reads %q and encodes as %x (was %x)", pair[0], pair[1], a.GetString(), again, encA), cs)
			}
			if !bytes.Equal(encB, refString(4, []byte(pair[1]))) {
				r.Violation("OEM_STRING.SetString:value-copy", fmt.Sprintf("the copy set to %q encodes as %x", pair[1], encB), cs)
			}
			// the same with the generic string type
			sa := types.NewSMB_STRING([]byte(pair[0]))
			sa.SetBufferFormat(4)
			sb := *sa
			sb.SetString(pair[1])
			if got := string(sa.Buffer); got != pair[0] {
				r.Violation("SMB_STRING.SetString:value-copy-writes-through", fmt.Sprintf("a := %q; b := *a; b.SetString(%q): a.Buffer now reads %q", pair[0], pair[1], got), cs)
			}
			r.Nontrivial(fmt.Sprintf("value-copy|%d|%d", i, ctor))
		}
	}
	rng := r.Rand("OEM_STRING")
	for t := 0; t < r.Pick(1500, 40000); t++ {
		one(nulFree(rng, randLen(rng)), fmt.Sprintf("random#%d", t), t%4)
	}
}

// ---------------------------------------------------------------- 16-bit words, exhaustive

func runDates() {
	sp := newSpec("SMB_DATE", func(pre, buf []byte) (int, error, []fv) {
		d := types.NewSMB_DATE()
		if pre != nil {
			d.Unmarshal(pre)
		}
		n, err := d.Unmarshal(buf)
		return n, err, []fv{fu("Year", uint64(d.Year)), fu("Month", uint64(d.Month)), fu("Day", uint64(d.Day))}
	})
	for w := 0; w < 65536; w++ {
		// independent model of the bit packing: (year-1980)<<9 | month<<5 | day
		y, m, d := 1980+(w>>9), (w>>5)&0xF, w&0x1F
		desc := fmt.Sprintf("word=0x%04X year=%d month=%d day=%d", w, y, m, d)
		var obj *types.SMB_DATE
		if w%2 == 0 {
			obj = types.NewSMB_DATEFromDate(y, m, d)
		} else {
			obj = &types.SMB_DATE{Year: uint16(y), Month: uint8(m), Day: uint8(d)}
		}
		enc, ok := marshal("SMB_DATE", desc, obj.Marshal)
		if !ok {
			continue
		}
		wire := []byte{byte(w), byte(w >> 8)}
		layout("SMB_DATE", desc, enc, wire)
		want := []fv{fu("Year", uint64(y)), fu("Month", uint64(m)), fu("Day", uint64(d))}
		sp.judge(want, enc, w != 0, desc)
		sample(sp, desc, enc)
		// decode -> encode identity on the word
		back := types.NewSMB_DATE()
		var re []byte
		p, pv, _ := mon.Guard(func() {
			if _, err := back.Unmarshal(exact(wire, nil)); err == nil {
				re, _ = back.Marshal()
			}
		})
		r.Eval(1)
		if p || len(re) != 2 || re[0] != wire[0] || re[1] != wire[1] {
			r.Violation("SMB_DATE:reencode:word", fmt.Sprintf("word 0x%04X decoded then re-encoded gives %x (panic=%v)", w, re, pv), map[string]any{"word": w})
		}
	}
	r.Count("exhaustive_SMB_DATE_words", 65536)
}

func runPipeStatus() {
	sp := newSpec("SMB_NMPIPE_STATUS", func(pre, buf []byte) (int, error, []fv) {
		s := &types.SMB_NMPIPE_STATUS{}
		if pre != nil {
			s.Unmarshal(pre)
		}
		n, err := s.Unmarshal(buf)
		return n, err, []fv{fu("ICount", uint64(s.ICount)), fu("Flags", uint64(s.Flags))}
	})
	for w := 0; w < 65536; w++ {
		ic, fl := uint8(w), uint8(w>>8)
		desc := fmt.Sprintf("word=0x%04X ICount=%d Flags=0x%02X", w, ic, fl)
		obj := types.SMB_NMPIPE_STATUS{ICount: ic, Flags: fl}
		enc, ok := marshal("SMB_NMPIPE_STATUS", desc, obj.Marshal)
		if !ok {
			continue
		}
		layout("SMB_NMPIPE_STATUS", desc, enc, []byte{byte(w), byte(w >> 8)})
		sp.judge([]fv{fu("ICount", uint64(ic)), fu("Flags", uint64(fl))}, enc, w != 0, desc)
		sample(sp, desc, enc)
		// accessor consistency on the decoded word
		if obj.GetICount() != ic || obj.IsNonBlocking() != (fl&0x80 != 0) || obj.GetReadMode() != fl&3 {
			r.Violation("SMB_NMPIPE_STATUS:accessors", fmt.Sprintf("accessors disagree with the fields for word 0x%04X", w), map[string]any{"word": w})
		}
		// setters: only their own bits of the encoded word change
		for _, nb := range []bool{true, false} {
			o2 := types.SMB_NMPIPE_STATUS{ICount: ic, Flags: fl}
			o2.SetNonBlockingStatus(nb)
			o2.SetICount(^ic)
			e2, err := o2.Marshal()
			wantW := (w&0x7F00 | int(^ic)) &^ 0x8000
			if nb {
				wantW |= 0x8000
			}
			r.Eval(1)
			if err != nil || len(e2) != 2 || int(e2[0])|int(e2[1])<<8 != wantW {
				r.Violation("SMB_NMPIPE_STATUS:setters", fmt.Sprintf("word 0x%04X, SetNonBlockingStatus(%v), SetICount(%d): encodes as %x, want word 0x%04X", w, nb, ^ic, e2, wantW), map[string]any{"word": w, "nonblocking": nb})
			}
		}
	}
	r.Count("exhaustive_SMB_NMPIPE_STATUS_words", 65536)
}

func runFileAttributes() {
	sp := newSpec("SMB_FILE_ATTRIBUTES", func(pre, buf []byte) (int, error, []fv) {
		s := &types.SMB_FILE_ATTRIBUTES{}
		if pre != nil {
			s.Unmarshal(pre)
		}
		n, err := s.Unmarshal(buf)
		return n, err, []fv{fu("Attributes", uint64(s.GetAttributes()))}
	})
	for w := 0; w < 65536; w++ {
		desc := fmt.Sprintf("Attributes=0x%04X", w)
		obj := &types.SMB_FILE_ATTRIBUTES{}
		obj.SetAttributes(uint16(w))
		enc, ok := marshal("SMB_FILE_ATTRIBUTES", desc, obj.Marshal)
		if !ok {
			continue
		}
		// byte order is C05's business; here only round trip and count
		sp.judge([]fv{fu("Attributes", uint64(w))}, enc, w != 0, desc)
		sample(sp, desc, enc)
	}
	r.Count("exhaustive_SMB_FILE_ATTRIBUTES_words", 65536)
}

// ---------------------------------------------------------------- fixed little-endian structures

func runFixed() {
	// FILETIME
	{
		w := []int{4, 4}
		names := []string{"DwLowDateTime", "DwHighDateTime"}
		sp := newSpec("FILETIME", func(pre, buf []byte) (int, error, []fv) {
			s := &data_structures.FILETIME{}
			if pre != nil {
				s.Unmarshal(pre)
			}
			n, err := s.Unmarshal(buf)
			return n, err, []fv{fu(names[0], uint64(s.DwLowDateTime)), fu(names[1], uint64(s.DwHighDateTime))}
		})
		vs := vectors(w, r.Rand("FILETIME"), r.Pick(3000, 80000))
		for bit := 0; bit < 64; bit++ { // every single-bit pattern and its complement
			x := uint64(1) << uint(bit)
			vs = append(vs, []uint64{x & 0xFFFFFFFF, x >> 32}, []uint64{^x & 0xFFFFFFFF, ^x >> 32})
		}
		for _, v := range vs {
			desc := vecDesc(names, v)
			obj := &data_structures.FILETIME{DwLowDateTime: uint32(v[0]), DwHighDateTime: uint32(v[1])}
			enc, ok := marshal("FILETIME", desc, obj.Marshal)
			if !ok {
				continue
			}
			layout("FILETIME", desc, enc, leBytes(w, v))
			sp.judge([]fv{fu(names[0], v[0]), fu(names[1], v[1])}, enc, anyNonzero(v), desc)
			sample(sp, desc, enc)
		}
	}
	// LOCKING_ANDX_RANGE32
	{
		w := []int{2, 4, 4}
		names := []string{"PID", "ByteOffset", "LengthInBytes"}
		sp := newSpec("LOCKING_ANDX_RANGE32", func(pre, buf []byte) (int, error, []fv) {
			s := &types.LOCKING_ANDX_RANGE32{}
			if pre != nil {
				s.Unmarshal(pre)
			}
			n, err := s.Unmarshal(buf)
			return n, err, []fv{fu(names[0], uint64(s.PID)), fu(names[1], uint64(s.ByteOffset)), fu(names[2], uint64(s.LengthInBytes))}
		})
		for _, v := range vectors(w, r.Rand("RANGE32"), r.Pick(3000, 80000)) {
			desc := vecDesc(names, v)
			obj := &types.LOCKING_ANDX_RANGE32{PID: types.USHORT(v[0]), ByteOffset: types.ULONG(v[1]), LengthInBytes: types.ULONG(v[2])}
			enc, ok := marshal("LOCKING_ANDX_RANGE32", desc, obj.Marshal)
			if !ok {
				continue
			}
			layout("LOCKING_ANDX_RANGE32", desc, enc, leBytes(w, v))
			sp.judge([]fv{fu(names[0], v[0]), fu(names[1], v[1]), fu(names[2], v[2])}, enc, nonzeroMultibyte(w, v), desc)
			sample(sp, desc, enc)
		}
	}
	// LOCKING_ANDX_RANGE64
	{
		w := []int{2, 2, 4, 4, 4, 4}
		names := []string{"PID", "Pad", "ByteOffsetHigh", "ByteOffsetLow", "LengthInBytesHigh", "LengthInBytesLow"}
		sp := newSpec("LOCKING_ANDX_RANGE64", func(pre, buf []byte) (int, error, []fv) {
			s := &types.LOCKING_ANDX_RANGE64{}
			if pre != nil {
				s.Unmarshal(pre)
			}
			n, err := s.Unmarshal(buf)
			return n, err, []fv{fu(names[0], uint64(s.PID)), fu(names[1], uint64(s.Pad)), fu(names[2], uint64(s.ByteOffsetHigh)),
				fu(names[3], uint64(s.ByteOffsetLow)), fu(names[4], uint64(s.LengthInBytesHigh)), fu(names[5], uint64(s.LengthInBytesLow))}
		})
		for _, v := range vectors(w, r.Rand("RANGE64"), r.Pick(3000, 80000)) {
			desc := vecDesc(names, v)
			obj := &types.LOCKING_ANDX_RANGE64{PID: types.USHORT(v[0]), Pad: types.USHORT(v[1]), ByteOffsetHigh: types.ULONG(v[2]),
				ByteOffsetLow: types.ULONG(v[3]), LengthInBytesHigh: types.ULONG(v[4]), LengthInBytesLow: types.ULONG(v[5])}
			enc, ok := marshal("LOCKING_ANDX_RANGE64", desc, obj.Marshal)
			if !ok {
				continue
			}
			layout("LOCKING_ANDX_RANGE64", desc, enc, leBytes(w, v))
			var want []fv
			for i := range names {
				want = append(want, fu(names[i], v[i]))
			}
			sp.judge(want, enc, nonzeroMultibyte(w, v), desc)
			sample(sp, desc, enc)
		}
	}
}

// ---------------------------------------------------------------- resume key, directory entry

var rkWidths = func() []int {
	w := make([]int, 21)
	for i := range w {
		w[i] = 1
	}
	return w
}()

var liveRK *types.SMB_RESUME_KEY
var liveDI *types.SMB_DIRECTORY_INFORMATION

func rkFields(k *types.SMB_RESUME_KEY, prefix string) []fv {
	return []fv{fu(prefix+"Reserved", uint64(k.Reserved)), fb(prefix+"ServerState", k.ServerState[:]), fb(prefix+"ClientState", k.ClientState[:]),
		fu(prefix+"SMB_STRING.BufferFormat", uint64(k.SMB_STRING.BufferFormat)), fu(prefix+"SMB_STRING.Length", uint64(k.SMB_STRING.Length)), fb(prefix+"SMB_STRING.Buffer", k.SMB_STRING.Buffer)}
}

func rkFromVec(v []uint64, viaCtor bool) *types.SMB_RESUME_KEY {
	var k *types.SMB_RESUME_KEY
	if viaCtor {
		k = types.NewSMB_RESUME_KEY()
	} else {
		k = &types.SMB_RESUME_KEY{}
	}
	k.Reserved = types.UCHAR(v[0])
	for i := 0; i < 16; i++ {
		k.ServerState[i] = types.UCHAR(v[1+i])
	}
	for i := 0; i < 4; i++ {
		k.ClientState[i] = types.UCHAR(v[17+i])
	}
	return k
}

func rkWant(v []uint64, prefix string) []fv {
	raw := make([]byte, 21)
	for i := range raw {
		raw[i] = byte(v[i])
	}
	return []fv{fu(prefix+"Reserved", v[0]), fb(prefix+"ServerState", raw[1:17]), fb(prefix+"ClientState", raw[17:21]),
		fu(prefix+"SMB_STRING.BufferFormat", 5), fu(prefix+"SMB_STRING.Length", 21), fb(prefix+"SMB_STRING.Buffer", raw)}
}

func runResumeKey() {
	sp := newSpec("SMB_RESUME_KEY", func(pre, buf []byte) (int, error, []fv) {
		k := &types.SMB_RESUME_KEY{}
		if pre != nil {
			k.Unmarshal(pre)
		}
		n, err := k.Unmarshal(buf)
		return n, err, rkFields(k, "")
	})
	for i, v := range vectors(rkWidths, r.Rand("RESUME_KEY"), r.Pick(2000, 40000)) {
		raw := make([]byte, 21)
		for j := range raw {
			raw[j] = byte(v[j])
		}
		desc := fmt.Sprintf("Reserved|ServerState|ClientState=%x ctor=%d", raw, i%2)
		k := rkFromVec(v, i%2 == 0)
		enc, ok := marshal("SMB_RESUME_KEY", desc, k.Marshal)
		if !ok {
			continue
		}
		// a long-lived object that encoded/decoded other values before, given these field values,
		// must produce the same encoding (no stale cached block)
		if liveRK == nil {
			liveRK = types.NewSMB_RESUME_KEY()
			liveRK.Marshal()
		}
		liveRK.Reserved, liveRK.ServerState, liveRK.ClientState = k.Reserved, k.ServerState, k.ClientState
		if again, ok2 := marshal("SMB_RESUME_KEY", desc, liveRK.Marshal); ok2 {
			r.Eval(1)
			if !bytes.Equal(again, enc) {
				r.Violation("SMB_RESUME_KEY.Marshal:stale-after-field-change", fmt.Sprintf("an object re-assigned to %s encodes as %x, a fresh one as %x", desc, again, enc), map[string]any{"fields": desc})
			}
		}
		if i%3 == 0 {
			liveRK.Unmarshal(enc)
		}
		sp.judge(rkWant(v, ""), enc, anyNonzero(v), desc)
		sample(sp, desc, enc)
	}
}

var fixedNames = []string{"", "A", "TEST.TXT", "FOLDER", "ABCDEFGHIJKL", "PODA.LIRIUS", "AB  ", " A", "A B", "            ", " ", "A          B",
	"\xff\xff\xff\xff\xff\xff\xff\xff\xff\xff\xff\xff", "\x01\x01\x01\x01\x01\x01\x01\x01\x01\x01\x01\x01", "\x04NAME", "\x05\x15", "12345678.123", "1234567.12 "}

func runDirectoryInformation() {
	sp := newSpec("SMB_DIRECTORY_INFORMATION", func(pre, buf []byte) (int, error, []fv) {
		d := types.NewSMB_DIRECTORY_INFORMATION()
		if pre != nil {
			d.Unmarshal(pre)
		}
		n, err := d.Unmarshal(buf)
		out := rkFields(&d.ResumeKey, "ResumeKey.")
		out = append(out, fu("FileAttributes", uint64(d.FileAttributes)),
			fu("LastWriteTime.DwLowDateTime", uint64(d.LastWriteTime.DwLowDateTime)), fu("LastWriteTime.DwHighDateTime", uint64(d.LastWriteTime.DwHighDateTime)),
			fu("LastWriteDate.Year", uint64(d.LastWriteDate.Year)), fu("LastWriteDate.Month", uint64(d.LastWriteDate.Month)), fu("LastWriteDate.Day", uint64(d.LastWriteDate.Day)),
			fu("FileSize", uint64(d.FileSize)),
			fs("FileName", strings.TrimRight(d.FileName.GetString(), " ")), fu("FileName.BufferFormat", uint64(d.FileName.BufferFormat)))
		return n, err, out
	})
	// vector: 21 resume-key bytes, attributes, time low/high, packed date word, size
	widths := append(append([]int(nil), rkWidths...), 1, 4, 4, 2, 4)
	rng := r.Rand("DIRINFO")
	vs := vectors(widths, rng, r.Pick(2500, 50000))
	// every attribute byte (volume label 0x08, directory 0x10, ... and their combinations) with
	// names of the 8.3 shapes: base and extension, no dot, a dot in ninth place, a leading dot,
	// eleven characters without a dot (a volume label), two dots
	names83 := []string{"AUTOEXEC.BAT", "NAME.EXT", "A.B", "NODOT", "12345678.123", "ABCDEFGH.", ".HIDDEN", "LABEL123.456", "VOLUMELABEL", "A..B", "ABCDEFGHIJK", "ABCDEFGH.IJK"}
	forced := map[int]string{}
	for attr := 0; attr < 256; attr++ {
		for ni, nm := range names83 {
			v := append([]uint64(nil), vs[(attr*len(names83)+ni)%len(vs)]...)
			v[21] = uint64(attr)
			forced[len(vs)] = nm
			vs = append(vs, v)
		}
	}
	for i, v := range vs {
		var name string
		if nm, ok := forced[i]; ok {
			name = nm
		} else if i < 4*len(fixedNames) {
			name = fixedNames[i%len(fixedNames)]
		} else {
			name = string(nulFree(rng, rng.IntN(13)))
			if rng.IntN(4) == 0 && len(name) < 12 { // explicit trailing spaces
				name += strings.Repeat(" ", rng.IntN(12-len(name)+1))
			}
		}
		dw := int(v[24])
		y, m, dd := 1980+(dw>>9), (dw>>5)&0xF, dw&0x1F
		desc := fmt.Sprintf("key=%x attr=0x%02X time=0x%08X:%08X date=%d-%d-%d size=0x%X name=%q", func() []byte {
			b := make([]byte, 21)
			for j := range b {
				b[j] = byte(v[j])
			}
			return b
		}(), v[21], v[23], v[22], y, m, dd, v[25], name)
		d := types.NewSMB_DIRECTORY_INFORMATION()
		d.ResumeKey = *rkFromVec(v[:21], i%2 == 0)
		d.FileAttributes = types.UCHAR(v[21])
		d.LastWriteTime = types.SMB_TIME{DwLowDateTime: uint32(v[22]), DwHighDateTime: uint32(v[23])}
		d.LastWriteDate = *types.NewSMB_DATEFromDate(y, m, dd)
		d.FileSize = types.ULONG(v[25])
		d.FileName = *types.NewOEM_STRINGFromString(name)
		enc, ok := marshal("SMB_DIRECTORY_INFORMATION", desc, d.Marshal)
		if !ok {
			continue
		}
		if liveDI == nil {
			liveDI = types.NewSMB_DIRECTORY_INFORMATION()
			liveDI.Marshal()
		}
		liveDI.ResumeKey.Reserved, liveDI.ResumeKey.ServerState, liveDI.ResumeKey.ClientState = d.ResumeKey.Reserved, d.ResumeKey.ServerState, d.ResumeKey.ClientState
		liveDI.FileAttributes, liveDI.LastWriteTime, liveDI.LastWriteDate, liveDI.FileSize = d.FileAttributes, d.LastWriteTime, d.LastWriteDate, d.FileSize
		liveDI.FileName.SetString(name)
		if again, ok2 := marshal("SMB_DIRECTORY_INFORMATION", desc, liveDI.Marshal); ok2 {
			r.Eval(1)
			if !bytes.Equal(again, enc) {
				r.Violation("SMB_DIRECTORY_INFORMATION.Marshal:stale-after-field-change", fmt.Sprintf("an object re-assigned to %s encodes as %x, a fresh one as %x", desc, again, enc), map[string]any{"fields": desc})
			}
		}
		if i%3 == 0 {
			liveDI.Unmarshal(enc)
		}
		// the name given through the string's buffer alone (its length field left as it was: zero in
		// a new entry, twelve in a decoded one): the count is derived, so the entry encodes as the
		// consistent assignment does, or is refused
		if i%2 == 0 {
			d3 := types.NewSMB_DIRECTORY_INFORMATION()
			how := "a new entry"
			if i%4 == 0 {
				how = "a decoded entry"
				if _, e := d3.Unmarshal(append([]byte{}, enc...)); e != nil {
					d3 = types.NewSMB_DIRECTORY_INFORMATION()
				}
			}
			d3.ResumeKey = *rkFromVec(v[:21], i%2 == 0)
			d3.FileAttributes, d3.LastWriteTime, d3.LastWriteDate, d3.FileSize = d.FileAttributes, d.LastWriteTime, d.LastWriteDate, d.FileSize
			short := strings.TrimRight(name, " ")
			d3.FileName.Buffer = []byte(short)
			var enc3 []byte
			var e3 error
			p3, _, _ := mon.Guard(func() { enc3, e3 = d3.Marshal() })
			dref := types.NewSMB_DIRECTORY_INFORMATION()
			dref.ResumeKey = *rkFromVec(v[:21], i%2 == 0)
			dref.FileAttributes, dref.LastWriteTime, dref.LastWriteDate, dref.FileSize = d.FileAttributes, d.LastWriteTime, d.LastWriteDate, d.FileSize
			dref.FileName = *types.NewOEM_STRINGFromString(short)
			ref3, eref := dref.Marshal()
			r.Eval(1)
			switch {
			case p3 || e3 != nil || eref != nil:
				r.Count("directory_entries_named_through_the_buffer_refused", 1)
			case !bytes.Equal(enc3, ref3):
				r.Violation("SMB_DIRECTORY_INFORMATION.Marshal:name-through-buffer", fmt.Sprintf("%s whose FileName.Buffer is set to %q (length field untouched) encodes as %d bytes %x, the entry built with that name as %d bytes %x", how, short, len(enc3), enc3, len(ref3), ref3), map[string]any{"fields": desc, "how": how})
			}
		}
		want := rkWant(v[:21], "ResumeKey.")
		want = append(want, fu("FileAttributes", v[21]), fu("LastWriteTime.DwLowDateTime", v[22]), fu("LastWriteTime.DwHighDateTime", v[23]),
			fu("LastWriteDate.Year", uint64(y)), fu("LastWriteDate.Month", uint64(m)), fu("LastWriteDate.Day", uint64(dd)),
			fu("FileSize", v[25]), fs("FileName", strings.TrimRight(name, " ")), fu("FileName.BufferFormat", 4))
		sp.judge(want, enc, anyNonzero(v) && strings.TrimRight(name, " ") != "", desc)
		sample(sp, desc, enc)
	}
}

// ---------------------------------------------------------------- AndX, Parameters, Data, Version

func runAndX() {
	names := []string{"AndXCommand", "AndXReserved", "AndXOffset"}
	w := []int{1, 1, 2}
	sp := newSpec("AndX", func(pre, buf []byte) (int, error, []fv) {
		a := andx.NewAndX()
		if pre != nil {
			a.Unmarshal(pre)
		}
		n, err := a.Unmarshal(buf)
		return n, err, []fv{fu(names[0], uint64(a.AndXCommand)), fu(names[1], uint64(a.AndXReserved)), fu(names[2], uint64(a.AndXOffset))}
	})
	vs := vectors(w, r.Rand("AndX"), r.Pick(2000, 40000))
	for c := 0; c < 256; c++ { // every command byte
		vs = append(vs, []uint64{uint64(c), uint64(255 - c), uint64(c)<<8 | uint64(c^0x5A)})
	}
	for o := 0; o < 65536; o++ { // every offset word
		vs = append(vs, []uint64{uint64(o*7) & 0xFF, uint64(o>>3) & 0xFF, uint64(o)})
	}
	for _, v := range vs {
		desc := vecDesc(names, v)
		a := &andx.AndX{AndXCommand: codes.CommandCode(v[0]), AndXReserved: uint8(v[1]), AndXOffset: uint16(v[2])}
		enc, ok := marshal("AndX", desc, a.Marshal)
		if !ok {
			continue
		}
		// AndXOffset byte order is C05's; the command and reserved bytes lead the block
		sp.judge([]fv{fu(names[0], v[0]), fu(names[1], v[1]), fu(names[2], v[2])}, enc, v[2] != 0, desc)
		sample(sp, desc, enc)
		if a.GetOffset() != uint16(v[2]) || a.GetCommandCode() != codes.CommandCode(v[0]) {
			r.Violation("AndX:accessors", "GetOffset/GetCommandCode disagree with the fields", map[string]any{"value": desc})
		}
		// the block has two encodings inside the library: its own four bytes (Marshal) and the two
		// parameter words every AndX command starts with (GetParameters, written high byte
		// first by Parameters): both must be the same four bytes
		if ws := a.GetParameters(); len(ws) != 2 || len(enc) != 4 || byte(ws[0]>>8) != enc[0] || byte(ws[0]) != enc[1] || byte(ws[1]>>8) != enc[2] || byte(ws[1]) != enc[3] {
			r.Violation("AndX.GetParameters:words", fmt.Sprintf("%s: the parameter words %04x disagree with the block's own encoding % x", desc, ws, enc), map[string]any{"value": desc})
		}
		r.Eval(1)
	}
	r.Count("exhaustive_AndX_offsets", 65536)
}

func wordsHex(ws []uint16) string {
	var sb strings.Builder
	for _, w := range ws {
		fmt.Fprintf(&sb, "%04x", w)
	}
	return sb.String()
}

func runParameters() {
	sp := newSpec("Parameters", func(pre, buf []byte) (int, error, []fv) {
		p := parameters.NewParameters()
		if pre != nil {
			p.Unmarshal(pre)
		}
		n, err := p.Unmarshal(buf)
		return n, err, []fv{fu("WordCount", uint64(p.WordCount)), {"Words", wordsHex(p.Words)}}
	})
	rng := r.Rand("Parameters")
	one := func(ws []uint16, cname string) {
		desc := fmt.Sprintf("words=%d content=%s", len(ws), cname)
		if len(ws) <= 8 {
			desc += " [" + wordsHex(ws) + "]"
		}
		p := &parameters.Parameters{WordCount: uint8(len(ws)), Words: append([]uint16(nil), ws...)}
		enc, ok := marshal("Parameters", desc, p.Marshal)
		if !ok {
			return
		}
		if len(enc) != 1+2*len(ws) { // block size follows from MS-CIFS: count byte + 2 bytes per word
			r.Violation("Parameters.Marshal:length", fmt.Sprintf("%d words encoded in %d bytes", len(ws), len(enc)), map[string]any{"value": desc})
		}
		sp.judge([]fv{fu("WordCount", uint64(len(ws))), {"Words", wordsHex(ws)}}, enc, len(ws) > 0, desc)
		sample(sp, desc, enc)
		// the same block built through the block's own constructors encodes to the same bytes:
		// word by word, from the byte stream of the words, and from that stream in two pieces
		// (the first of odd length when possible: the odd byte is the high half of a word)
		stream := enc[1:]
		for mode := 0; mode < 3; mode++ {
			q := parameters.NewParameters()
			switch mode {
			case 0:
				for _, w := range ws {
					q.AddWord(w)
				}
			case 1:
				q.AddWordsFromBytesStream(append([]byte(nil), stream...))
			default:
				if len(stream) < 4 {
					continue
				}
				q.AddWordsFromBytesStream(append([]byte(nil), stream[:2]...))
				q.AddWordsFromBytesStream(append([]byte(nil), stream[2:]...))
			}
			got, err := q.Marshal()
			r.Eval(1)
			if err != nil || string(got) != string(enc) {
				r.Violation("Parameters:constructors", fmt.Sprintf("%s: built with constructor %d the block encodes as %d bytes (err %v), the same words assigned directly give %d bytes", desc, mode, len(got), err, len(enc)), map[string]any{"value": desc, "constructor": mode})
			}
		}
		// an odd-length stream: the last byte is the high half of one more word
		if len(stream) >= 2 {
			odd := append(append([]byte(nil), stream...), byte(len(ws)*37+1))
			q := parameters.NewParameters()
			q.AddWordsFromBytesStream(odd)
			got, err := q.Marshal()
			r.Eval(1)
			wantOdd := append(append([]byte{byte(len(ws) + 1)}, odd...), 0)
			if len(ws) < 255 && (err != nil || string(got) != string(wantOdd)) {
				r.Violation("Parameters:constructors:odd-stream", fmt.Sprintf("%s: a stream of %d bytes gives a block of %d bytes (err %v); expected the stream followed by one zero byte under count %d", desc, len(odd), len(got), err, len(ws)+1), map[string]any{"value": desc})
			}
		}
	}
	for n := 0; n <= 255; n++ { // every word count
		mk := func(f func(i int) uint16) []uint16 {
			ws := make([]uint16, n)
			for i := range ws {
				ws[i] = f(i)
			}
			return ws
		}
		one(mk(func(i int) uint16 { return uint16(2*i+1)<<8 | uint16(2*i+2) }), "distinct")
		one(mk(func(i int) uint16 { return 0x8000 | uint16(i) }), "high-bit")
		one(mk(func(i int) uint16 { return uint16(rng.UintN(65536)) }), "random")
		if n == 0 || n == 1 || n == 127 || n == 128 || n == 255 {
			one(mk(func(i int) uint16 { return 0 }), "zeros")
			one(mk(func(i int) uint16 { return 0xFFFF }), "ones")
			one(mk(func(i int) uint16 { return 0x00FF }), "00ff")
			one(mk(func(i int) uint16 { return 0xFF00 }), "ff00")
		}
	}
	for t := 0; t < r.Pick(1500, 30000); t++ {
		n := []int{0, 1, 2, 127, 128, 254, 255, rng.IntN(256), rng.IntN(256), rng.IntN(20)}[rng.IntN(10)]
		ws := make([]uint16, n)
		for i := range ws {
			ws[i] = uint16(randField(rng, 2))
		}
		one(ws, fmt.Sprintf("random#%d", t))
	}
	r.Count("exhaustive_Parameters_wordcounts", 256)
}

type heldBytes struct {
	live, want []byte
	what       string
}

var liveData = data.NewData()
var heldData []heldBytes

func runData() {
	sp := newSpec("Data", func(pre, buf []byte) (int, error, []fv) {
		d := data.NewData()
		if pre != nil {
			d.Unmarshal(pre)
		}
		n, err := d.Unmarshal(buf)
		return n, err, []fv{fu("ByteCount", uint64(d.ByteCount)), fb("Bytes", d.Bytes)}
	})
	one := func(b []byte, cname string, mode int) {
		desc := fmt.Sprintf("bytes=%d content=%s ctor=%d", len(b), cname, mode)
		var d *data.Data
		switch mode {
		case 0:
			d = &data.Data{ByteCount: uint16(len(b)), Bytes: append([]byte(nil), b...)}
		case 1:
			d = data.NewData()
			d.SetData(append([]byte(nil), b...))
		default:
			d = data.NewData()
			h := len(b) / 2
			d.Add(b[:h])
			d.Add(b[h:])
		}
		enc, ok := marshal("Data", desc, d.Marshal)
		if !ok {
			return
		}
		layout("Data", desc, enc, append([]byte{byte(len(b)), byte(len(b) >> 8)}, b...))
		if d.Size() != uint16(len(b)) || string(d.GetBytes()) != string(b) {
			r.Violation("Data:accessors", "Size/GetBytes disagree with what was set", map[string]any{"value": desc})
		}
		sp.judge([]fv{fu("ByteCount", uint64(len(b))), fb("Bytes", b)}, enc, len(b) > 0, desc)
		sample(sp, desc, enc)
		// results handed out by an earlier decode (and a buffer handed in through SetData) must not
		// change when the same object decodes something else afterwards
		if len(b) <= 4096 {
			in := append([]byte(nil), enc...)
			liveData.Unmarshal(in)
			got := liveData.GetBytes()
			heldData = append(heldData, heldBytes{live: got, want: append([]byte(nil), got...), what: desc})
			if len(heldData) > 48 {
				heldData = heldData[1:]
			}
			for i := range heldData {
				if string(heldData[i].live) != string(heldData[i].want) {
					r.Violation("Data.Unmarshal:held-result-changed", "bytes returned by GetBytes() after an earlier decode changed when the same Data decoded another block ("+heldData[i].what+")", map[string]any{"value": heldData[i].what})
					heldData[i].want = append([]byte(nil), heldData[i].live...)
				}
			}
			r.Eval(1)
			if mode%5 == 0 { // a caller-owned buffer given to SetData, then the object decodes something else
				own := append([]byte(nil), b...)
				keep := append([]byte(nil), b...)
				liveData.SetData(own)
				liveData.Unmarshal(append([]byte(nil), enc...))
				liveData.Unmarshal([]byte{3, 0, 0xEE, 0xEE, 0xEE})
				if string(own) != string(keep) {
					r.Violation("Data.Unmarshal:overwrites-setdata-argument", "the buffer a caller passed to SetData was overwritten by a later Unmarshal into the same object", map[string]any{"value": desc})
				}
			}
		}
	}
	mode := 0
	for _, n := range stringLengths {
		cs, names := contents(n, true)
		for i, c := range cs {
			one(c, names[i], mode%3)
			mode++
		}
	}
	rng := r.Rand("Data")
	for t := 0; t < r.Pick(1500, 40000); t++ {
		one(rbytes(rng, randLen(rng)), fmt.Sprintf("random#%d", t), t%3)
	}
}

func runVersion() {
	w := []int{1, 1, 2, 1, 1, 1, 1}
	names := []string{"ProductMajorVersion", "ProductMinorVersion", "ProductBuild", "Reserved0", "Reserved1", "Reserved2", "NTLMRevision"}
	fields := func(v *version.Version) []fv {
		return []fv{fu("ProductMajorVersion", uint64(v.ProductMajorVersion)), fu("ProductMinorVersion", uint64(v.ProductMinorVersion)),
			fu("ProductBuild", uint64(v.ProductBuild)), fb("Reserved", v.Reserved[:]), fu("NTLMRevision", uint64(v.NTLMRevision))}
	}
	sp := newSpec("ntlm.Version", func(pre, buf []byte) (int, error, []fv) {
		v := &version.Version{}
		if pre != nil {
			v.Unmarshal(pre)
		}
		n, err := v.Unmarshal(buf)
		return n, err, fields(v)
	})
	vs := vectors(w, r.Rand("Version"), r.Pick(2000, 40000))
	for b := 0; b < 65536; b++ { // every build number
		vs = append(vs, []uint64{uint64(b*3) & 0xFF, uint64(b>>5) & 0xFF, uint64(b), uint64(b) & 0xFF, uint64(b>>8) & 0xFF, uint64(b*11) & 0xFF, uint64(b*13) & 0xFF})
	}
	for i, v := range vs {
		desc := vecDesc(names, v)
		var obj version.Version
		if i%2 == 0 && v[3]|v[4]|v[5] == 0 {
			obj = version.NewVersion(byte(v[0]), byte(v[1]), uint16(v[2]), byte(v[6]))
		} else {
			obj = version.Version{ProductMajorVersion: byte(v[0]), ProductMinorVersion: byte(v[1]), ProductBuild: uint16(v[2]),
				Reserved: [3]byte{byte(v[3]), byte(v[4]), byte(v[5])}, NTLMRevision: byte(v[6])}
		}
		enc, ok := marshal("ntlm.Version", desc, obj.Marshal)
		if !ok {
			continue
		}
		layout("ntlm.Version", desc, enc, leBytes(w, v))
		want := []fv{fu("ProductMajorVersion", v[0]), fu("ProductMinorVersion", v[1]), fu("ProductBuild", v[2]),
			fb("Reserved", []byte{byte(v[3]), byte(v[4]), byte(v[5])}), fu("NTLMRevision", v[6])}
		sp.judge(want, enc, v[2] != 0, desc)
		sample(sp, desc, enc)
	}
	// the default version must survive too
	dv := version.DefaultVersion()
	if enc, ok := marshal("ntlm.Version", "DefaultVersion()", dv.Marshal); ok {
		want := make([]byte, 8)
		want[0], want[1], want[7] = 10, 0, 15
		binary.LittleEndian.PutUint16(want[2:4], 18362)
		layout("ntlm.Version", "DefaultVersion()", enc, want)
		sp.judge(fields(&dv), enc, true, "DefaultVersion()")
	}
	r.Count("exhaustive_Version_builds", 65536)
}
