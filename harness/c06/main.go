// C06: SMB wire data types round-trip and consume exactly their own encoding.
//
// Runtime monitor: every type's real Marshal is run on field values from its
// representable domain, and the real Unmarshal is run on that encoding alone
// and followed by unrelated trailing bytes. The oracle demands: error nil,
// fields equal, returned count == len(own encoding).
package main

import (
	"bytes"
	"encoding/hex"
	"fmt"
	"math/rand/v2"
	"os"
	"strconv"

	"verif/mon"
)

var r *mon.Run

// fv is one decoded (or expected) field rendered to a comparable string.
type fv struct{ N, V string }

func fu(name string, v uint64) fv { return fv{name, strconv.FormatUint(v, 10)} }
func fb(name string, b []byte) fv { return fv{name, hex.EncodeToString(b)} } // nil == empty
func fs(name string, s string) fv { return fv{name, hex.EncodeToString([]byte(s))} }

// spec describes one wire type to the generic judge.
type spec struct {
	name string // key prefix, e.g. "SMB_STRING.fmt01"
	// dec decodes buf into a receiver of the type; when pre != nil the receiver
	// first decoded pre (a different valid encoding) so that stale state shows.
	dec  func(pre, buf []byte) (int, error, []fv)
	last []byte // previous valid encoding of this type ("another valid encoding" suffix)
	rng  *rand.Rand
	n    int // cases judged

	tinyTails int // 64 KiB tails spent on encodings of at most four octets
}

func newSpec(name string, dec func(pre, buf []byte) (int, error, []fv)) *spec {
	return &spec{name: name, dec: dec, rng: r.Rand("suffix/" + name)}
}

// exact returns a buffer a||b whose capacity equals its length, so that a
// decoder slicing past the end of its input panics instead of reading slack.
func exact(a, b []byte) []byte {
	out := make([]byte, len(a)+len(b))
	copy(out, a)
	copy(out[len(a):], b)
	return out
}

func fill(n int, v byte) []byte {
	b := make([]byte, n)
	for i := range b {
		b[i] = v
	}
	return b
}

func rbytes(rng *rand.Rand, n int) []byte {
	b := make([]byte, n)
	for i := range b {
		b[i] = byte(rng.UintN(256))
	}
	return b
}

type variant struct {
	kind   string // evidence only
	class  string // key component: alone | reused | suffix
	pre    []byte
	suffix []byte
}

// countTiny bounds the number of 64 KiB tails spent on the smallest encodings of one type.
func (sp *spec) countTiny() bool { sp.tinyTails++; return true }

func (sp *spec) variants(enc []byte) []variant {
	rng := sp.rng
	other := sp.last
	if other == nil {
		other = enc
	}
	vs := []variant{
		{"alone", "alone", nil, nil},
		{"reused-receiver", "reused", other, nil},
		{"one-byte", "suffix", nil, []byte{byte(rng.UintN(256))}},
		{"zeros", "suffix", nil, fill(1+rng.IntN(64), 0x00)},
		{"ones", "suffix", nil, fill(1+rng.IntN(64), 0xFF)},
		{"random", "suffix", nil, rbytes(rng, 1+rng.IntN(64))},
		{"another-encoding", "suffix", nil, other},
		{"another-encoding+random", "suffix", nil, exact(other, rbytes(rng, 1+rng.IntN(8)))},
	}
	// a long tail: more than a 16-bit count can describe follows the encoding (every 64th case; the
	// decoder must still take exactly its own bytes)
	if sp.n%64 == 5 || (len(enc) <= 4 && sp.n%5 == 1 && sp.tinyTails < 40 && sp.countTiny()) { // and after the smallest encodings (an empty block, an empty string) more often
		vs = append(vs, variant{"64k-zeros", "suffix", nil, fill(65536+sp.n%7, 0x00)}, variant{"64k-ones", "suffix", nil, fill(65537, 0xFF)}, variant{"70k-pattern", "suffix", nil, rbytes(rng, 70000)})
	}
	// deterministic single-byte boundary suffixes, cycled so that every type sees each
	switch sp.n % 4 {
	case 0:
		vs = append(vs, variant{"one-zero", "suffix", nil, []byte{0x00}})
	case 1:
		vs = append(vs, variant{"one-ff", "suffix", nil, []byte{0xFF}})
	case 2:
		vs = append(vs, variant{"reused+suffix", "suffix", other, rbytes(rng, 1+rng.IntN(16))})
	case 3:
		// the receiver first met an encoding cut short (refused, or accepted as something
		// shorter): the decode that follows must not see anything of it
		if len(other) > 1 {
			vs = append(vs, variant{"reused-after-cut-short", "reused", exact(other[:len(other)-1], nil), nil},
				variant{"reused-after-cut-in-half", "reused", exact(other[:len(other)/2], nil), nil})
		}
	}
	return vs
}

func caseOf(sp *spec, v variant, enc []byte, desc string) map[string]any {
	return map[string]any{"type": sp.name, "variant": v.kind, "value": desc,
		"encoding_hex": mon.FullHex(enc), "suffix_hex": mon.FullHex(v.suffix), "receiver_previously_decoded_hex": mon.FullHex(v.pre)}
}

// judge runs every suffix variant and the truncation probes for one encoding.
func (sp *spec) judge(want []fv, enc []byte, nontrivial bool, desc string) {
	sp.n++
	for _, v := range sp.variants(enc) {
		buf := exact(enc, v.suffix)
		var n int
		var err error
		var got []fv
		p, pv, st := mon.Guard(func() { n, err, got = sp.dec(v.pre, buf) })
		r.Eval(1)
		r.Count("decodes_"+v.class, 1)
		if p {
			r.Violation(fmt.Sprintf("%s.Unmarshal:panic:%s:%s", sp.name, mon.PanicClass(pv), v.class),
				fmt.Sprintf("%s.Unmarshal panicked (%v at %s) on its own %d-byte encoding, variant %s; value %s", sp.name, pv, mon.TopLibFrame(st), len(enc), v.kind, desc),
				caseOf(sp, v, enc, desc))
			continue
		}
		if err != nil {
			r.Violation(fmt.Sprintf("%s.Unmarshal:error:%s", sp.name, v.class),
				fmt.Sprintf("%s.Unmarshal returned error %q on its own %d-byte encoding, variant %s (%d trailing bytes); value %s", sp.name, err, len(enc), v.kind, len(v.suffix), desc),
				caseOf(sp, v, enc, desc))
			continue
		}
		if n != len(enc) {
			r.Violation(fmt.Sprintf("%s.Unmarshal:count:%s", sp.name, v.class),
				fmt.Sprintf("%s.Unmarshal reported %d bytes consumed, own encoding is %d bytes, variant %s (%d trailing bytes); value %s", sp.name, n, len(enc), v.kind, len(v.suffix), desc),
				caseOf(sp, v, enc, desc))
		}
		if len(got) != len(want) {
			r.Inconclusive(fmt.Sprintf("harness bug: %s field lists differ in length (%d vs %d)", sp.name, len(got), len(want)))
			continue
		}
		for i := range want {
			if got[i].N != want[i].N {
				r.Inconclusive(fmt.Sprintf("harness bug: %s field order %s vs %s", sp.name, got[i].N, want[i].N))
				break
			}
			if got[i].V != want[i].V {
				r.Violation(fmt.Sprintf("%s.Unmarshal:field:%s:%s", sp.name, want[i].N, v.class),
					fmt.Sprintf("%s: field %s decoded as %s, encoded value was %s, variant %s (%d trailing bytes); value %s", sp.name, want[i].N, short(got[i].V), short(want[i].V), v.kind, len(v.suffix), desc),
					caseOf(sp, v, enc, desc))
			}
		}
	}
	// Truncation probes (secondary rule): a count can only be exact if it is bounded by
	// the bytes given. On a strict prefix of an own encoding the decoder may fail, but it
	// must not report success with a count larger than its input, and must not crash.
	seen := map[int]bool{}
	for _, k := range []int{len(enc) - 1, len(enc) / 2, 2, 1, 0, len(enc) - 2} {
		if k < 0 || k >= len(enc) || seen[k] {
			continue
		}
		seen[k] = true
		buf := exact(enc[:k], nil)
		var n int
		var err error
		p, pv, st := mon.Guard(func() { n, err, _ = sp.dec(nil, buf) })
		r.Eval(1)
		r.Count("decodes_truncated", 1)
		cs := map[string]any{"type": sp.name, "variant": "truncated", "value": desc, "encoding_hex": mon.FullHex(enc), "given_prefix_len": k}
		if p {
			r.Violation(fmt.Sprintf("%s.Unmarshal:panic:%s:truncated", sp.name, mon.PanicClass(pv)),
				fmt.Sprintf("%s.Unmarshal panicked (%v at %s) on the first %d bytes of a %d-byte own encoding; value %s", sp.name, pv, mon.TopLibFrame(st), k, len(enc), desc), cs)
			continue
		}
		if err == nil && n > k {
			r.Violation(fmt.Sprintf("%s.Unmarshal:count-exceeds-input:truncated", sp.name),
				fmt.Sprintf("%s.Unmarshal reported success and %d bytes consumed when given only %d bytes (prefix of a %d-byte own encoding); value %s", sp.name, n, k, len(enc), desc), cs)
		}
	}
	if nontrivial {
		h := enc
		if len(h) > 48 {
			h = h[:48]
		}
		r.Nontrivial(fmt.Sprintf("%s|%d|%x|%s", sp.name, len(enc), h, desc))
	}
	sp.last = append(sp.last[:0:0], enc...)
	r.Count("encodings_"+sp.name, 1)
}

func short(s string) string {
	if len(s) > 64 {
		return s[:64] + fmt.Sprintf("…(%d hex chars)", len(s))
	}
	return s
}

// marshal runs a library Marshal under the panic guard; ok=false means a
// violation was recorded and there is nothing to decode.
func marshal(name, desc string, f func() ([]byte, error)) ([]byte, bool) {
	var b []byte
	var err error
	p, pv, st := mon.Guard(func() { b, err = f() })
	r.Eval(1)
	cs := map[string]any{"type": name, "value": desc}
	if p {
		r.Violation(fmt.Sprintf("%s.Marshal:panic:%s", name, mon.PanicClass(pv)),
			fmt.Sprintf("%s.Marshal panicked (%v at %s) on in-domain value %s", name, pv, mon.TopLibFrame(st), desc), cs)
		return nil, false
	}
	if err != nil {
		r.Violation(fmt.Sprintf("%s.Marshal:error", name),
			fmt.Sprintf("%s.Marshal returned error %q on in-domain value %s", name, err, desc), cs)
		return nil, false
	}
	// the returned slice itself is kept (not the copy): a later Marshal of anything must not
	// change it (an encoder handing out pooled/scratch memory)
	if len(b) <= 1<<16 {
		for _, tag := range heldOut.Hold(b, name) {
			r.Violation(tag+".Marshal:held-output-changed", "bytes returned by an earlier "+tag+".Marshal changed after later Marshal calls (the result aliases reused memory)", cs)
		}
	}
	return append([]byte(nil), b...), true
}

var heldOut = mon.NewHeldRing(64)

// layout compares the library's encoding with the independent one (only for the
// layouts the property's mechanism list names: little-endian fixed offsets, date
// bit packing, buffer-format framing).
func layout(name, desc string, got, want []byte) {
	r.Eval(1)
	if !bytes.Equal(got, want) {
		r.Violation(name+".Marshal:layout",
			fmt.Sprintf("%s.Marshal produced %s, the wire layout is %s; value %s", name, mon.Hex(got), mon.Hex(want), desc),
			map[string]any{"type": name, "value": desc, "got_hex": mon.FullHex(got), "want_hex": mon.FullHex(want)})
	}
}

func main() {
	r = mon.Start("C06", "exploration")
	r.Rule("Per wire type (SMB_STRING formats 0x01..0x05, OEM_STRING, SMB_DATE, FILETIME, LOCKING_ANDX_RANGE32/64, SMB_NMPIPE_STATUS, SMB_RESUME_KEY, SMB_DIRECTORY_INFORMATION, SMB_FILE_ATTRIBUTES, AndX, Parameters, Data, NTLM Version): library Marshal of an in-domain value, then library Unmarshal of that encoding alone, into a receiver that previously held another value, and followed by suffixes (1 byte, 0x00 run, 0xFF run, random 1..64 bytes, another valid encoding of the same type, that plus random); demanded: err nil, every field equal, n == len(own encoding). Exhaustive sub-domains: all 65536 SMB_DATE words, all 65536 SMB_NMPIPE_STATUS words, all 65536 SMB_FILE_ATTRIBUTES words, all 65536 AndX offsets, all 65536 Version builds, all 256 Parameters word counts. Secondary: strict prefixes of an own encoding must not yield success with n > bytes given, nor a panic; little-endian/bit-packing layouts named in the property are compared with an independent encoder. Non-trivial: an encoding with at least one non-zero multi-byte field or a non-empty variable-length member, judged under all suffix kinds; distinct by (type, encoding).")
	r.Assume("directory-entry file names are compared modulo trailing-space padding (the property says so)",
		"strings for NUL-terminated formats (0x02, 0x03, 0x04, OEM_STRING, directory file names) are NUL-free; Length == len(Buffer) in every generated string",
		"byte order of SMB_FILE_ATTRIBUTES, AndX.AndXOffset and Parameters words is not judged here (C05); only round trip and count",
		"SMB_DATE domain is Year 1980..2107, Month 0..15, Day 0..31 (what the 7/4/5-bit fields can hold)",
		"input buffers have cap == len, so a decoder that slices past its input panics rather than reading slack")
	r.SetExhaustive(true)

	// Library code prints from SMB_RESUME_KEY.Unmarshal; keep it off the disk.
	realStdout := os.Stdout
	if dn, err := os.OpenFile(os.DevNull, os.O_WRONLY, 0); err == nil {
		os.Stdout = dn
	}

	runStrings()
	runDates()
	runPipeStatus()
	runFileAttributes()
	runFixed()
	runResumeKey()
	runDirectoryInformation()
	runAndX()
	runParameters()
	runData()
	runVersion()

	os.Stdout = realStdout
	r.Finish()
}
