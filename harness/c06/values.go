package main

import (
	"encoding/binary"
	"fmt"
	"math/rand/v2"
)

// Boundary values by width in bytes.
var bounds = map[int][]uint64{
	1: {0, 1, 0x7F, 0x80, 0xFE, 0xFF},
	2: {0, 1, 0x7F, 0x80, 0xFF, 0x100, 0x7FFF, 0x8000, 0x8001, 0xFF00, 0xFFFE, 0xFFFF},
	4: {0, 1, 0xFF, 0xFFFF, 0x10000, 0x7FFFFFFF, 0x80000000, 0x80000001, 0xFF000000, 0xFFFFFFFE, 0xFFFFFFFF},
}

func maxOf(w int) uint64 { return (uint64(1) << (8 * uint(w))) - 1 }

// distinctVec gives every field a value whose bytes are pairwise distinct
// across the whole structure (0x01, 0x0203, 0x04050607, ...).
func distinctVec(widths []int) []uint64 {
	out := make([]uint64, len(widths))
	c := uint64(1)
	for i, w := range widths {
		var v uint64
		for k := 0; k < w; k++ {
			v = v<<8 | (c & 0xFF)
			c++
			if c&0xFF == 0 {
				c++
			}
		}
		out[i] = v
	}
	return out
}

func randField(rng *rand.Rand, w int) uint64 {
	switch rng.IntN(4) {
	case 0:
		b := bounds[w]
		return b[rng.IntN(len(b))]
	case 1: // high bit set
		return (rng.Uint64() | (uint64(1) << (8*uint(w) - 1))) & maxOf(w)
	}
	return rng.Uint64() & maxOf(w)
}

// vectors: boundaries first (each field through every boundary value of its
// width against three backgrounds), then nRandom seeded vectors.
func vectors(widths []int, rng *rand.Rand, nRandom int) [][]uint64 {
	var out [][]uint64
	zero := make([]uint64, len(widths))
	ones := make([]uint64, len(widths))
	for i, w := range widths {
		ones[i] = maxOf(w)
	}
	dist := distinctVec(widths)
	out = append(out, zero, ones, dist)
	for i, w := range widths {
		for _, bg := range [][]uint64{zero, ones, dist} {
			for _, b := range bounds[w] {
				v := append([]uint64(nil), bg...)
				v[i] = b
				out = append(out, v)
			}
		}
	}
	for t := 0; t < nRandom; t++ {
		v := make([]uint64, len(widths))
		for i, w := range widths {
			v[i] = randField(rng, w)
		}
		out = append(out, v)
	}
	return out
}

func nonzeroMultibyte(widths []int, v []uint64) bool {
	for i, w := range widths {
		if w > 1 && v[i] != 0 {
			return true
		}
	}
	return false
}

func anyNonzero(v []uint64) bool {
	for _, x := range v {
		if x != 0 {
			return true
		}
	}
	return false
}

// leBytes is the independent little-endian fixed-offset encoder.
func leBytes(widths []int, v []uint64) []byte {
	var out []byte
	for i, w := range widths {
		switch w {
		case 1:
			out = append(out, byte(v[i]))
		case 2:
			out = binary.LittleEndian.AppendUint16(out, uint16(v[i]))
		case 4:
			out = binary.LittleEndian.AppendUint32(out, uint32(v[i]))
		}
	}
	return out
}

func vecDesc(names []string, v []uint64) string {
	s := ""
	for i, n := range names {
		if i > 0 {
			s += " "
		}
		s += fmt.Sprintf("%s=0x%X", n, v[i])
	}
	return s
}

// nulFree draws n bytes from 0x01..0xFF.
func nulFree(rng *rand.Rand, n int) []byte {
	b := make([]byte, n)
	for i := range b {
		b[i] = byte(1 + rng.UintN(255))
	}
	return b
}

// contents returns the deterministic content classes for a string of length n.
func contents(n int, allowNUL bool) (out [][]byte, names []string) {
	add := func(name string, f func(i int) byte) {
		b := make([]byte, n)
		for i := range b {
			b[i] = f(i)
		}
		out = append(out, b)
		names = append(names, name)
	}
	add("ascii", func(i int) byte { return byte('A' + i%26) })
	if n == 0 {
		return
	}
	add("ff", func(i int) byte { return 0xFF })
	add("01", func(i int) byte { return 0x01 })
	add("counter-nonzero", func(i int) byte { return byte(1 + (i*7+i>>8)%255) })
	add("format-bytes", func(i int) byte { return byte(1 + i%5) }) // looks like buffer-format codes
	if allowNUL {
		add("zeros", func(i int) byte { return 0 })
		add("counter", func(i int) byte { return byte(i) })
		add("nul-first", func(i int) byte {
			if i == 0 {
				return 0
			}
			return 'x'
		})
		add("nul-last", func(i int) byte {
			if i == n-1 {
				return 0
			}
			return 'y'
		})
		add("two-nuls-last", func(i int) byte {
			if i >= n-2 {
				return 0
			}
			return 'z'
		})
		add("utf16-text-with-its-terminator", func(i int) byte {
			if i%2 == 1 || i >= n-2 {
				return 0
			}
			return byte('a' + i/2%26)
		})
	}
	return
}
