#!/bin/bash
# Runs the repository's own suite with the verif guard OFF (BASELINE.json command) and
# prints pass/fail counts of test events.
cd /repo || exit 2
unset GOFLAGS GOTOOLCHAIN GOSUMDB
export GOPROXY=off
go test -mod=mod -json -vet=off -count=1 -timeout 25m ./... > /tmp/baseline.$$.json 2>/tmp/baseline.$$.err
rc=$?
python3 - /tmp/baseline.$$.json <<'PY'
import json,sys
p=f=0; fails=[]
for l in open(sys.argv[1]):
    try: e=json.loads(l)
    except: continue
    if e.get('Test'):
        if e['Action']=='pass': p+=1
        elif e['Action']=='fail': f+=1; fails.append(e['Package']+'::'+e['Test'])
print(f"baseline: pass={p} fail={f}")
for x in fails: print(" FAIL",x)
PY
rm -f /tmp/baseline.$$.json /tmp/baseline.$$.err
exit $rc
