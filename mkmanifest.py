#!/usr/bin/env python3
"""Regenerates /verif/MANIFEST.json from the table below (kept in one place so the
manifest is always valid). A property is claimed iff harness/<id>/main.go exists and it
is listed in BUILT."""
import json, os, subprocess

BUILT = os.environ.get("BUILT", "").split() or [l.strip() for l in open("/verif/BUILT").read().split()]

T = {
 "C01": ("exploration", "reference-model monitor (two independent MD4s, own UTF-16/LM/DCC/PBKDF2) over seeded hostile inputs, every 2-way cut, digest-read/write operation strings",
         "Every MD4 length 0..200 (330 thorough) with every 2-way cut, seeded k-way cuts, long messages in random chunkings, digest reads interleaved with writes, NT/LM/DCC/DCC2 on Unicode-class inputs; each result compared with independent references. Held = on the executions observed.",
         "Go std crypto/des, sha1, hmac trusted; x/crypto/md4 trusted only in agreement with the harness's RFC 1320 transcription; strings.ToLower simple case mapping."),
 "C02": ("exploration", "reference-model monitor: independent DESL and NTLMv2 verifier that knows the password, run over seeded credentials/challenges; exhaustive 7-bit parity groups",
         "NTLMv1 responses from every entry point compared with DESL written from MS-NLMP; NTLMv2 responses, AUTHENTICATE payloads and hashcat lines verified by an independent verifier; parity expansion exhaustive per 7-bit group.",
         "Go std crypto/des, md5, hmac trusted; timestamp value not judged."),
 "C03": ("exploration", "reference-model monitor: independent 32-byte header codec + framing equation + idempotence monitor; dispatch exhaustive over 256 codes x reply flag",
         "Header fields at boundary/random values vs an independent MS-CIFS 2.2.3.1 codec, dispatch over all 512 (code, reply) pairs, framing equation on every command type, Marshal repeated 1..5 times.",
         "Naming rule CommandCodeNames -> struct type name trusted as the dispatch expectation."),
 "C04": ("exploration", "reflection-driven round-trip + slot (differential encoding) monitor over every structure the factories return",
         "Every structure reachable from the two factories is filled with consistent field values by reflection, encoded, decoded into a fresh structure, compared field by field, re-encoded; fixed-width fields are probed for slot width/disjointness/order.",
         "Consistency relations derived from the commands' own Unmarshal; structures for which none can be derived fall back to decode-encode idempotence."),
 "C05": ("exploration", "slot/endianness monitor (byte-distinct probe values vs independent little-endian writer) + hand-written MS-CIFS subset codec",
         "Each integer field is set to a byte-distinct value and its slot must hold the little-endian bytes at the declared width; AndX block, dialect and buffer-format framing checked against MS-CIFS rules; hand-written codec for a subset compared byte for byte.",
         "MS-CIFS PDFs are emptied in this image; subset codec written from knowledge of MS-CIFS."),
 "C06": ("exploration", "round-trip + bytes-consumed monitor with trailing-suffix workloads; 2x65536 words exhaustive",
         "Every wire type encoded, then decoded alone and followed by hostile suffixes; fields and consumed count compared with the encoding's own length; all 65536 packed dates and pipe-status words.",
         "Own encoding length is the oracle for the consumed count."),
 "C07": ("fault_enumeration", "panic / fatal-error / CPU-time / allocation monitors around every decoder entry point, in journalled child processes, fed with every truncation and boundary-value corruption of valid encodings",
         "Every registered decoder is called on every truncation and structured corruption of valid encodings plus raw hostile inputs; a panic, fatal error, CPU-bound overrun or allocation out of proportion is a violation with the input as witness.",
         "Only that the call returns is judged, not what it returns; bounds: 20 s CPU, 1 MiB + 1024 x len(input) bytes allocated."),
 "C08": ("exploration", "independent MS-NLMP reader/writer and DER walker as reference models over seeded names, flags, AV-pair lists and token lengths across DER length-form boundaries",
         "NEGOTIATE/AUTHENTICATE messages validated by an independent structural reader; CHALLENGE messages built by an independent writer must parse back exactly; SPNEGO wrap/extract identity over token lengths crossing every DER length form.",
         "OEM mode restricted to ASCII; names < 65536 bytes."),
 "C09": ("exploration", "differential monitor against an independent RFC 1035 codec (with compression), hostile pointer placements run in child processes with a CPU watchdog",
         "Round trip of header/questions/all three record sections, both directions of a differential against an independent codec including compressed names, every non-backward pointer must be rejected, decoding must terminate.",
         "Names satisfy both readings of the 255-byte limit."),
 "C10": ("exploration", "independent RFC 1001 §14.1 encoder/decoder and RFC 1002 §4.2 packet parser/writer as reference models; 16 positions x 256 byte values exhaustive",
         "First-level encoding compared with an independent encoder for every byte value at every position, scopes, packets with 0..4 entries per section parsed by an independent RFC 1002 parser and vice versa.",
         "Name equality is equality of the 16-byte space-padded form."),
 "C11": ("fault_enumeration", "scripted in-memory and loopback-TCP peer with an independent RFC 1002 §4.3.1 framer; every segmentation class and a cut after every byte offset, under the race detector",
         "Send/Receive driven with boundary payload lengths, all segmentations, and a connection cut after every byte offset of small frames; the peer's independent framer judges bytes on the wire; race detector on.",
         "net.Pipe peer reached through a verif-tagged constructor; real TCP loopback used as well."),
 "C12": ("exploration", "reference-model monitor vs crypto/rc4, an independent RFC 4493 CMAC, an independent PKCS#7 predicate and crypto/aes CBC; PKCS#7 grids exhaustive",
         "RC4 for every key length 1..256 and chunking, CMAC for every message length 0..100 with all 2-way splits and Sum/Reset interleavings over AES and DES blocks, PKCS#7 over all block sizes x lengths, GPP vs AES-256-CBC.",
         "Go std crypto/aes, des, rc4 trusted."),
 "C13": ("exploration", "reference-model monitor: independent RFC 4122 field extraction and MS-DTYP mixed-endian packer, parse/format identities over single-bit patterns and seeded random values",
         "All 128 single-bit patterns and complements plus random 128-bit values through every parser/formatter pair; independent RFC 4122 / MS-DTYP computations for fields and byte layout.",
         "math/big trusted."),
 "C14": ("exploration", "round-trip monitor + exhaustive single-bit tamper sweep per serialised blob, independent SHA-256 recomputation",
         "Credentials built from seeded RSA keys/ids/ticks are serialised, parsed, compared, re-serialised; every single-bit flip of each blob must be rejected or fail the integrity check when it lies in the covered region.",
         "crypto/sha256 trusted."),
 "C15": ("exploration", "reference-model monitor using arbitrary-precision arithmetic (math/big) over boundary and seeded 64-bit ticks, times and durations",
         "Every conversion compared with exact big-integer arithmetic at epoch boundaries, int64-nanosecond limits, sentinels and random values; inverses composed.",
         "math/big and time.Date trusted."),
 "C16": ("exploration", "reference-model monitor: independent SID formatter and DN parser; sub-authority counts 0..15 exhaustive",
         "All sub-authority counts x boundary authorities x boundary sub-authorities, trailing bytes; DNs built from escaped RDN sequences with the expected DC join.",
         "DNs are in the form AD emits."),
 "C17": ("exploration", "exhaustive sequential exploration against a sequential model with live-table snapshots + porcupine linearizability checking of recorded concurrent histories under the race detector",
         "Every operation sequence to a depth bound compared with a sequential model after every step (return values, queries, internal snapshot, aliasing probe); short concurrent histories checked for linearizability with porcupine, race detector on.",
         "TTL fixed per name within a history so expiry is decided by sign."),
 "C18": ("exploration", "request/response pairing recorder over loopback sockets, opcode routing sweep, goroutine-leak and bounded-progress monitors, race detector with a recvfrom annotation hook",
         "N concurrent clients with unique (id, name) pairs; every response must pair with exactly one request; all 16 opcodes; Stop/Close at seeded logical points; goroutine leaks and race reports are violations.",
         "Loopback sockets; UDP loss tolerated; bounded-progress rule 20 s."),
 "C19": ("exploration", "homomorphism/sensitivity monitors over exhaustive 8/16-bit words and single/pair-bit 32-bit words; constants enumerated from the source with go/parser",
         "Flag decompositions must be the disjoint union of their single-bit decompositions and stable across repeated calls; each predicate's sensitivity mask is measured; every declared constant must map to a unique non-placeholder name.",
         "Constant tables enumerated from /repo's source at check time."),
 "C20": ("exploration", "reference-model monitor vs net/netip and an independent hash-spec parser; prefix lengths exhaustive",
         "All 33 prefix lengths x boundary/random addresses compared with net/netip; print/parse identities; port pairs; hash strings in all paddings and cases.",
         "net/netip trusted."),
}

def main():
    checks = []
    na = []
    for pid in sorted(T):
        level, tech, text, note = T[pid]
        if pid in BUILT and os.path.exists(f"/verif/harness/{pid.lower()}/main.go"):
            checks.append({
                "property_id": pid,
                "quick_cmd": f"./check {pid} quick",
                "thorough_cmd": f"./check {pid} thorough",
                "evidence_file": f"/verif/evidence/{pid}.json",
                "replay_cmd_template": f"./check {pid} --replay {{path}}",
                "engine": "harness",
                "level_claimed": {"category": level, "text": text, "design_ref": f"DESIGN.md §{pid}"},
                "level_note": note,
                "technique": "runtime monitoring: " + tech,
            })
        else:
            na.append({"property_id": pid, "reason": "check not built yet in this session (runtime monitoring applies; see DESIGN.md §%s)" % pid})
    hooks = []
    try:
        hooks = [l.strip() for l in open("/verif/HOOK_COMMITS").read().split()]
    except FileNotFoundError:
        pass
    m = {
        "version": 1,
        "setup_cmd": "./setup.sh",
        "hooks": {
            "guard": "verif",
            "enable": "go build -tags verif (harness module /verif/harness with replace github.com/TheManticoreProject/Manticore => /repo)",
            "baseline_off_cmd": "cd /repo && go test -mod=mod -json -vet=off -count=1 -timeout 25m ./...",
            "source_commits": hooks,
            "add_only": True,
        },
        "engines": [{"name": "harness", "path": "/verif/harness", "serves_properties": [c["property_id"] for c in checks],
                     "kind_free_text": "Go monitors (reference models, panic/alloc/CPU monitors, porcupine, race detector) built per check against /repo's working tree"}],
        "checks": checks,
        "not_applicable": na,
        "notes": "All checks are runtime monitors; verdicts are 'held on the executions observed'. Known findings: /verif/known_findings.jsonl and /verif/known_findings.d/. After its native run ./check runs the same monitor built for GOARCH=386 (arithmetic, encodings, tables) and built with the race detector (the concurrent sections of C01 C02 C03 C08 C09 C10 C12 C13 C15 C16 C20; C11 C17 C18 run under the detector throughout); a side run's violations are reported like any other (replay under /verif/replay/<ID>.side386/ or <ID>.siderace/). VERIF_SEED selects the seeded part of a workload (default 1).",
    }
    json.dump(m, open("/verif/MANIFEST.json", "w"), indent=1)
    print("claimed:", [c["property_id"] for c in checks])

main()
