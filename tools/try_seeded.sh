#!/bin/bash
# tools/try_seeded.sh <PROPERTY-ID> <patch.diff> [tier] [other property ids to run as well...]
# Applies a seeded change to a scratch worktree of /repo's HEAD (never to /repo itself), confirms that
# it builds and that the repository's own suite still passes, then runs the property's check against it.
# Prints one line: SEEDED id=<ID> patch=<file> build=<ok|fail> suite=<pass|fail> check_rc=<rc> [keys...]
set -u
ID="$1"; PATCH="$(readlink -f "$2")"; TIER="${3:-quick}"
export GOFLAGS=-mod=mod GOPROXY=off GOSUMDB=off GOTOOLCHAIN=local
WT="/tmp/try-seeded.$$"
git -C /repo worktree add -q "$WT" HEAD || exit 2
cleanup(){ git -C /repo worktree remove --force "$WT" >/dev/null 2>&1; rm -rf "$WT"; }
trap cleanup EXIT
if ! git -C "$WT" apply "$PATCH" 2>/tmp/try.$$.err; then echo "SEEDED id=$ID patch=$PATCH apply=FAILED $(head -c 300 /tmp/try.$$.err)"; rm -f /tmp/try.$$.err; exit 3; fi
rm -f /tmp/try.$$.err
build=ok; (cd "$WT" && go1.26.8 build ./... >/dev/null 2>&1) || build=fail
suite=skipped
if [ "${SKIP_SUITE:-0}" != 1 ]; then
  suite=pass
  (cd "$WT" && go1.26.8 test -vet=off -count=1 ./... 2>&1 | grep -E "^(FAIL|---|panic)" | head -5 > /tmp/try.$$.suite)
  [ -s /tmp/try.$$.suite ] && suite="fail($(tr '\n' ' ' < /tmp/try.$$.suite | head -c 200))"
  rm -f /tmp/try.$$.suite
fi
cd /verif
out=$(VERIF_REPO="$WT" ./check "$ID" "$TIER" 2>&1); rc=$?
keys=$(echo "$out" | grep -o 'detail: \[[^]]*\]' | sed 's/detail: //' | head -6 | tr '\n' ' ')
echo "SEEDED id=$ID patch=$PATCH build=$build suite=$suite check_rc=$rc $keys"
echo "$out" | grep -E "INCONCLUSIVE" | head -3
