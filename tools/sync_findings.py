#!/usr/bin/env python3
"""Keeps, beside every JSON entry with status "fixed" in the known-findings files, the plain line
   fixed: property=<id> <commit> <what failed>
(the loader in harness/mon skips lines that are not JSON, so these lines suppress nothing)."""
import glob, json
for f in ['/verif/known_findings.jsonl'] + sorted(glob.glob('/verif/known_findings.d/*.jsonl')):
    lines = open(f).read().split('\n')
    have = set(l.strip() for l in lines if l.startswith('fixed: property='))
    out = []
    for l in lines:
        out.append(l)
        s = l.strip()
        if not s.startswith('{'):
            continue
        try:
            d = json.loads(s)
        except Exception:
            continue
        if d.get('status') == 'fixed':
            t = "fixed: property=%s %s %s" % (d['property'], d.get('commit', '?'), d['what'].replace('\n', ' '))
            if t not in have:
                out.append(t)
                have.add(t)
    open(f, 'w').write('\n'.join(out))
