#!/usr/bin/env python3
"""mkpatch.py <out.diff> <file-relative-to-repo> <old> <new> [<file> <old> <new> ...]
Creates a patch against /repo's HEAD by exact string replacement (first occurrence) in a scratch worktree."""
import sys,subprocess,os,tempfile,shutil
out=os.path.abspath(sys.argv[1]); args=sys.argv[2:]
wt=tempfile.mkdtemp(prefix='mkpatch.',dir='/tmp'); os.rmdir(wt)
subprocess.check_call(['git','-C','/repo','worktree','add','-q',wt,'HEAD'])
try:
    for i in range(0,len(args),3):
        f,old,new=args[i:i+3]
        p=os.path.join(wt,f); s=open(p).read()
        old=old.encode().decode('unicode_escape'); new=new.encode().decode('unicode_escape')
        if old not in s: sys.exit(f"pattern not found in {f}: {old!r}")
        open(p,'w').write(s.replace(old,new,1))
    d=subprocess.check_output(['git','-C',wt,'diff'])
    os.makedirs(os.path.dirname(out),exist_ok=True)
    open(out,'wb').write(d)
    print("wrote",out,len(d),"bytes")
finally:
    subprocess.call(['git','-C','/repo','worktree','remove','--force',wt])
