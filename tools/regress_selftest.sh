#!/bin/bash
# tools/regress_selftest.sh [ID...] : re-runs the builders' break-it patches (selftest/<ID>/*.diff|*.patch) against the quick checks.
cd /verif
det=0; miss=0; na=0
for d in selftest/*/; do
  id=$(basename $d)
  [ -n "$*" ] && ! echo " $* " | grep -q " $id " && continue
  for p in $d*.diff; do
    [ -f "$p" ] || continue
    line=$(SKIP_SUITE=1 tools/try_seeded.sh $id $p 2>&1 | head -1)
    if echo "$line" | grep -q "apply=FAILED"; then na=$((na+1)); echo "NOAPPLY  $p";
    elif echo "$line" | grep -q "check_rc=1"; then det=$((det+1)); echo "DETECTED $p";
    else miss=$((miss+1)); echo "MISSED   $p $(echo $line | cut -c1-120)"; fi
  done
done
echo "SUMMARY detected=$det missed=$miss no-longer-applies=$na"
