#!/usr/bin/env python3
"""ingest_seeded.py <ID> <k> [extra check ids...]
Takes /tmp/mut-<ID>-out/<k>/ (patch.diff, demo *_test.go, README.md) written by an independent sub-agent,
confirms in a scratch worktree of /repo HEAD that: the patch applies and builds; the repo's own suite passes
with it; the demonstration passes without the patch and fails with it; then runs ./check <ID> quick (and any
extra ids) against the patched worktree. Stores everything under /verif/seeded/<ID>-<k>/ with meta.json."""
import sys,os,re,subprocess,json,glob,shutil,tempfile
ID,k=sys.argv[1],sys.argv[2]; extra=sys.argv[3:]
src=os.environ.get("SEED_SRC",f"/tmp/mut-{ID}-out")+f"/{k}"
tag=os.environ.get("SEED_TAG","")
env=dict(os.environ,GOFLAGS="-mod=mod",GOPROXY="off",GOSUMDB="off",GOTOOLCHAIN="local")
def sh(cmd,cwd=None,timeout=3000):
    p=subprocess.run(cmd,shell=True,cwd=cwd,env=env,stdout=subprocess.PIPE,stderr=subprocess.STDOUT,text=True,timeout=timeout)
    return p.returncode,p.stdout
demos=[f for f in glob.glob(src+"/*.go")]
readme=open(src+"/README.md").read() if os.path.exists(src+"/README.md") else ""
def pkgdir(demo):
    base=os.path.basename(demo)
    m=re.search(r"cp\s+\S*"+re.escape(base)+r"\s+(\S+)",readme)
    if m:
        d=m.group(1).strip('`\'"').rstrip('/').replace('/tmp/mut-%s/'%ID,'').replace('/tmp/mut2-%s/'%ID,'')
        return os.path.dirname(d) if d.endswith('.go') else d
    head=open(demo).read(2000)
    m=re.search(r"((?:crypto|network|windows|utils|logger)/[A-Za-z0-9_./-]+)",head) or re.search(r"((?:crypto|network|windows|utils|logger)/[A-Za-z0-9_./-]+)",readme)
    if not m: return None
    d=m.group(1).rstrip('/.')
    return os.path.dirname(d) if d.endswith('.go') else d
wt=tempfile.mkdtemp(prefix="ingest.",dir="/tmp"); os.rmdir(wt)
subprocess.check_call(["git","-C","/repo","worktree","add","-q",wt,"HEAD"])
meta={"property":ID,"source":f"independent sub-agent, {src}","repo_head":subprocess.check_output(["git","-C","/repo","rev-parse","--short","HEAD"],text=True).strip()}
try:
    placed=[]
    for d in demos:
        pd=pkgdir(d)
        if pd is None or not os.path.isdir(os.path.join(wt,pd)):
            # main program demo?
            pd=pd or "?"
        placed.append((d,pd))
    meta["demo_files"]={os.path.basename(d):pd for d,pd in placed}
    def put():
        for d,pd in placed:
            if os.path.isdir(os.path.join(wt,pd)): shutil.copy(d,os.path.join(wt,pd))
    def rm():
        for d,pd in placed:
            f=os.path.join(wt,pd,os.path.basename(d))
            if os.path.exists(f): os.remove(f)
    def rundemo():
        pk=sorted({pd for _,pd in placed if os.path.isdir(os.path.join(wt,pd))})
        race=" -race -tags verif" if (ID in("C11","C17","C18") or os.environ.get("SEED_RACE")=="1") else ""
        names=[]
        for d,_ in placed:
            names+=re.findall(r"(?m)^func (Test\w+)\(",open(d).read())
        runf=" -run '^(%s)$'"%"|".join(names) if names else ""
        rc,out=sh("go1.26.8 test -vet=off -count=1%s%s %s 2>&1 | tail -25"%(race,runf," ".join("./"+p for p in pk)),cwd=wt)
        failed=("FAIL" in out) or ("panic:" in out) or ("DATA RACE" in out)
        return failed,out[-1500:]
    # demo without the patch
    put(); f0,o0=rundemo(); rm()
    meta["demo_without_patch"]="FAIL" if f0 else "pass"
    rc,out=sh(f"git apply {src}/patch.diff",cwd=wt)
    meta["apply"]="ok" if rc==0 else "FAILED: "+out[:300]
    if rc==0:
        rc,out=sh("go1.26.8 build ./...",cwd=wt); meta["build"]="ok" if rc==0 else "fail: "+out[:300]
        rc,out=sh("go1.26.8 test -vet=off -count=1 ./... 2>&1 | grep -E '^(FAIL|--- FAIL|panic)' | head -5",cwd=wt)
        meta["suite_with_patch"]="pass" if not out.strip() else "FAIL: "+out[:300]
        put(); f1,o1=rundemo(); rm()
        meta["demo_with_patch"]="FAIL" if f1 else "pass"
        meta["demo_with_patch_tail"]=o1[-600:]
        meta["checks"]={}
        for cid in [ID]+extra:
            p=subprocess.run(["./check",cid,"quick"],cwd="/verif",env=dict(env,VERIF_REPO=wt),stdout=subprocess.PIPE,stderr=subprocess.STDOUT,text=True,errors="replace")
            keys=re.findall(r"detail: \[([^\]]+)\]",p.stdout)
            meta["checks"][cid]={"rc":p.returncode,"violation_keys":keys[:8],"inconclusive":[l for l in p.stdout.splitlines() if l.startswith("INCONCLUSIVE")][:2]}
    m=re.search(r"(?s)(?:what it needs|needs|manifest)[^\n]*\n(.{0,600})",readme,re.I)
    meta["needs_to_manifest"]=(m.group(1).strip()[:600] if m else readme[:600])
    dst=f"/verif/seeded/{ID}-{tag}{k}"; os.makedirs(dst,exist_ok=True)
    shutil.copy(src+"/patch.diff",dst)
    for d,_ in placed: shutil.copy(d,dst)
    if readme: shutil.copy(src+"/README.md",dst)
    valid=meta.get("apply")=="ok" and meta.get("build")=="ok" and meta.get("suite_with_patch")=="pass" and meta.get("demo_without_patch")=="pass" and meta.get("demo_with_patch")=="FAIL"
    meta["confirmed_valid_seeded_change"]=valid
    meta["detected_by_quick"]=bool(meta.get("checks",{}).get(ID,{}).get("rc")==1)
    json.dump(meta,open(dst+"/meta.json","w"),indent=1)
    print(f"INGEST {ID}-{tag}{k}: valid={valid} detected={meta['detected_by_quick']} apply={meta.get('apply')} build={meta.get('build')} suite={meta.get('suite_with_patch')} demo(no patch)={meta.get('demo_without_patch')} demo(patch)={meta.get('demo_with_patch')} checks={ {c:(v['rc'],v['violation_keys'][:3]) for c,v in meta.get('checks',{}).items()} }")
finally:
    subprocess.call(["git","-C","/repo","worktree","remove","--force",wt])
