#!/bin/bash
# tools/regress_seeded.sh [ID...] : re-runs every kept seeded change (and the builders' selftest mutations with --selftest)
# against the current checks; prints one line per patch and a summary. Uses scratch worktrees only.
cd /verif
ids="$*"
pass=0; miss=0
for d in seeded/*/; do
  n=$(basename $d); id=${n%%-*}
  [ -n "$ids" ] && ! echo " $ids " | grep -q " $id " && continue
  extra=$(python3 -c "
import json
m=json.load(open('$d/meta.json'))
print(' '.join(c for c,v in m.get('checks',{}).items() if v.get('rc')==1 and c!='$id'))" 2>/dev/null)
  line=$(SKIP_SUITE=1 tools/try_seeded.sh $id $d/patch.diff 2>&1 | head -1)
  rc=$(echo "$line" | grep -o 'check_rc=[0-9]*' | cut -d= -f2)
  if [ "$rc" = 1 ]; then pass=$((pass+1)); echo "DETECTED $n by $id"; else
    ok=0
    for o in $extra; do
      l2=$(SKIP_SUITE=1 tools/try_seeded.sh $o $d/patch.diff 2>&1 | head -1)
      if echo "$l2" | grep -q 'check_rc=1'; then ok=1; echo "DETECTED $n by $o (not by $id)"; break; fi
    done
    if [ $ok = 1 ]; then pass=$((pass+1)); else miss=$((miss+1)); echo "MISSED   $n  $(echo $line | cut -c1-160)"; fi
  fi
done
echo "SUMMARY detected=$pass missed=$miss"
