#!/bin/bash
# tools/coverage.sh <ID> [tier]: builds the property's monitor with coverage instrumentation of the
# library, runs it (scratch verdict/evidence are discarded: VERIF_COVER=1 keeps /verif/evidence untouched
# only if the monitor honours it; evidence is restored from git afterwards), and lists the statements of
# the property's anchored files that the workload never executed. A diagnostic, not a check.
set -u
ID="$1"; TIER="${2:-quick}"
export GOFLAGS=-mod=mod GOPROXY=off GOSUMDB=off GOTOOLCHAIN=local
pkg=$(echo "$ID" | tr 'A-Z' 'a-z')
W=/tmp/cov.$ID; rm -rf "$W"; mkdir -p "$W/data"
RACE=""; case "$ID" in C11|C17|C18) RACE="-race";; esac
cd /verif/harness
go1.26.8 build -tags verif $RACE -cover -coverpkg=verif/$pkg,github.com/TheManticoreProject/Manticore/... -o "$W/bin" "./$pkg" || exit 2
cp /verif/evidence/$ID.json "$W/evidence.bak" 2>/dev/null
GOCOVERDIR="$W/data" VERIF_TIER="$TIER" VERIF_VERDICT="$W/verdict" VERIF_WORK="$W" VERIF_BIN="$W/bin" VERIF_SEED=1 timeout 3000 "$W/bin" >"$W/stdout" 2>"$W/stderr"
cp "$W/evidence.bak" /verif/evidence/$ID.json 2>/dev/null
go1.26.8 tool covdata textfmt -i="$W/data" -o "$W/cover.txt" 2>/dev/null
python3 - "$ID" "$W/cover.txt" <<'PY'
import json,sys,collections
pid,cov=sys.argv[1],sys.argv[2]
anch=[]
for l in open('/verif/properties.jsonl'):
    d=json.loads(l)
    if d['id']==pid: anch=d['anchors']['files']
blocks=collections.defaultdict(dict)
for l in open(cov):
    if l.startswith('mode:'): continue
    loc,n,c=l.rsplit(' ',2)
    f,rng=loc.split(':')
    f=f.replace('github.com/TheManticoreProject/Manticore/','')
    blocks[f][rng]=max(blocks[f].get(rng,0),int(c))
def match(f):
    for a in anch:
        if f==a or f.startswith(a.rstrip('/')+'/') : return True
    return False
tot=unc=0
out=[]
for f in sorted(blocks):
    if not match(f) or f.endswith('_test.go'): continue
    for rng,c in sorted(blocks[f].items(), key=lambda kv:[int(x) for x in kv[0].replace(',','.').split('.')]):
        tot+=1
        if c==0:
            unc+=1; out.append(f"{f}:{rng}")
print(f"{pid}: {tot-unc}/{tot} blocks of the anchored files executed; uncovered:")
for o in out: print("  ",o)
PY
rm -rf "$W/data" "$W/bin"
