#!/usr/bin/env python3
"""tools/remeta.py <seeded-dir-name> [check ids...]: re-runs the quick check(s) against an already confirmed seeded
change (scratch worktree, repository suite not repeated) and refreshes the 'checks' part of its meta.json."""
import json,os,re,subprocess,sys
name=sys.argv[1]; d=f"/verif/seeded/{name}"; ids=sys.argv[2:] or [name.split('-')[0]]
m=json.load(open(d+"/meta.json"))
for cid in ids:
    out=subprocess.run(["bash","-c",f"cd /verif && SKIP_SUITE=1 tools/try_seeded.sh {cid} {d}/patch.diff 2>&1"],capture_output=True,text=True).stdout
    rc=re.search(r"check_rc=(\d+)",out); rc=int(rc.group(1)) if rc else 2
    keys=re.findall(r"\[([^\]]+)\]",out.split("check_rc=")[-1]) if rc==1 else []
    m.setdefault("checks",{})[cid]={"rc":rc,"violation_keys":keys[:6],"inconclusive":[]}
    print("REMETA",name,cid,"rc=%d"%rc,keys[:2])
m["detected_by_quick"]=any(v.get("rc")==1 for v in m["checks"].values())
json.dump(m,open(d+"/meta.json","w"),indent=1)
