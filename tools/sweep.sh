#!/bin/bash
# tools/sweep.sh <tier> <seed>... : runs every claimed check at the given tier and seeds, one line each.
TIER="${1:-quick}"; shift
SEEDS="${*:-1}"
cd /verif
for s in $SEEDS; do
  for id in $(cat BUILT); do
    out=$(VERIF_SEED=$s ./check $id $TIER 2>&1); rc=$?
    echo "seed=$s $id rc=$rc $(echo "$out" | grep -E '^SUMMARY' | sed 's/SUMMARY property=[A-Z0-9]* //' | cut -c1-150)"
    [ $rc -ne 0 ] && echo "$out" | grep -E "VIOLATION|INCONCLUSIVE|detail" | head -5
  done
done
