#!/usr/bin/env python3
"""Writes /verif/seeded/RESULTS.md from seeded/*/meta.json (what each seeded change needs, which checks catch it)."""
import json,glob,os,re
rows=[]
for d in sorted(glob.glob('/verif/seeded/*/')):
    mp=d+'meta.json'
    if not os.path.exists(mp): continue
    m=json.load(open(mp)); n=os.path.basename(d.rstrip('/'))
    readme=open(d+'README.md').read() if os.path.exists(d+'README.md') else ''
    title=''
    for l in readme.splitlines():
        l=l.strip('# ').strip()
        if len(l)>15 and not l.lower().startswith(('mutation','c0','c1','change','seeded')):
            title=l; break
    if not title and readme: title=readme.strip().splitlines()[0].strip('# ')
    caught=[f"{c} `{(v['violation_keys'] or ['?'])[0]}`" for c,v in m.get('checks',{}).items() if v.get('rc')==1]
    rows.append((n,title[:110],'yes' if m.get('confirmed_valid_seeded_change') else 'NO', '; '.join(caught) if caught else ('not judged: outside the statement (see meta.json)' if m.get('outside_statement') else ('exposed a defect of the unchanged tree, repaired by fix: %s; harmless on the repaired tree (see meta.json)' % m['led_to_fix'] if m.get('led_to_fix') else '**missed**'))))
out=["# Seeded changes from independent sub-agents","",
"Each directory holds patch.diff, the demonstration, the author's README and meta.json (what was run here: apply, build, repository suite, demonstration without/with the patch, quick checks). "
"`confirmed` = applies, builds, repository suite passes, demonstration passes without and fails with the patch. Regenerate with tools/seeded_table.py; re-run all with tools/regress_seeded.sh.","",
"| id | change | confirmed | caught by (first key) |","|---|---|---|---|"]
for r in rows: out.append("| %s | %s | %s | %s |"%r)
open('/verif/seeded/RESULTS.md','w').write("\n".join(out)+"\n")
print(len(rows),"rows")
